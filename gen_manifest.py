#!/usr/bin/env python3
"""Regenerates MANIFEST.json from the table below (kept as a script so that the manifest stays
consistent while checks are added)."""
import json

BUILT = {
    "C01": ("3.1", "deterministic simulation: seeded adversarial schedules in a discrete-time FP kernel, monitored against the real analyses' bounds",
            "Seeded search over schedules of an independent discrete-time fixed-priority kernel (4 preemption models): release times anywhere the library's curve allows, execution times in [1,WCET], non-preemptive region placement, tie breaks; every job of every task with an Ok bound must finish within it. Per task a structured constructive worst-case candidate (aligned blocker, dense synchronous burst, WCET, longest NP regions, lost ties) on top of the random schedules makes ~94% of bounds attained exactly on the unchanged tree, so a one-tick optimistic slip is visible on most inputs. Sampling, not proof."),
    "C02": ("3.2", "deterministic simulation: seeded adversarial EDF schedules (deadline ties, anchored releases, blockers) monitored against the real analyses' bounds",
            "Same kernel under EDF with adversarial deadline tie-breaks, deadline-shifted anchored releases and aligned blockers; all four EDF analyses; ~87% of bounds attained exactly on the unchanged tree."),
    "C03": ("3.3", "deterministic simulation: seeded FIFO schedules with adversarial simultaneous-release ties, monitored against the real analysis' bound",
            "Same kernel under FIFO; every job of every task is monitored against the single bound; >99% of bounds attained exactly on the unchanged tree."),
    "C18": ("3.11", "deterministic simulation: constructive worst-case adversary in the kernel; equality of observed maximum and bound",
            "For Periodic / Sporadic / ExtrapolatingCurve task sets the constructive worst-case schedule (maximal-rate releases of the process each model DOCUMENTS, not of the library's curve; WCET; lost ties; NP blocker one tick earlier) is simulated and the largest response must EQUAL the bound of FP-P, FP-NP and FIFO (equality held in all analysed entities on the unchanged tree), which exposes pessimistic as well as optimistic one-tick changes."),
    "C09": ("3.6", "deterministic simulation: reservation server with adversarial budget placement, every window metered against provided_service / service_time (specialised and default)",
            "A reservation-server stub places its budget anywhere the model allows (early, late, early-then-late, random, over-provisioned) over 8 periods, plus static cyclic slot-table servers; every window of every length up to 4P is metered and every demand up to 3Q drained from every instant. Minimum metered service must EQUAL provided_service and maximum drain time must EQUAL service_time for the closed-form and for the trait-default implementation; all (Q,D,P) with P <= 10 (quick) / 20 (thorough) plus random larger ones are sampled, and for P <= 4 (quick) / 5 (thorough) EVERY placement over five periods is enumerated, so that equality with the true supply-bound function and its inverse is decided there."),
    "C10": ("3.7", "deterministic simulation: event sources following each model's documented process with injected delays, stretching, reordering and merging; window counts over the recorded history",
            "Event-source stubs generate streams from the process each arrival model documents (not from the library's curve): phases, gap stretching, per-event release jitter with reordering, bursts where delta-min is 0, nested per-event delays for Propagated/clone_with_jitter, merged component streams. Every window [t_i, t_j] of the recorded history is counted against number_arrivals; the maximal-rate stream of Periodic/Sporadic must attain it."),
    "C12": ("3.8", "deterministic simulation: recorded traces and documented-process event streams of source models checked in every window against the derived objects; dense streams of derived objects against the source; delta_min_iter duality",
            "Recorded event traces (bursts, simultaneous events) are fed to Curve::from_trace and every window of every length of the trace is counted against the inferred curve. For derived objects (from_arrival_bound(_until), From impls, ArrivalCurvePrefix::from_arrival_bound_until) streams of the source's documented process are checked in every window against the derived object up to 6x the covered prefix, the derived object's dense stream against the source inside the prefix, and the two number_arrivals are compared along the scan (equal inside the covered prefix, derived >= source wherever the source is exact). delta_min_iter items are checked for duality with number_arrivals."),
    "C13": ("3.9", "deterministic simulation: cooperative query clients on one shared ExtrapolatingCurve under a seeded scheduler, checked operation by operation against a fresh eager curve and a closure model; event streams constrained by the original prefix",
            "Streams respecting only the original delta-min prefix are counted in every window against extrapolate / extrapolate_steps / extrapolate_with_bound results and ExtrapolatingCurve; prefix values must be unchanged and values may only tighten. 2-5 cooperative clients holding clones, jittered clones and RBFs that share one cache interleave number_arrivals / service_needed / lazy steps_iter operations (iterators stay open across other clients' mutations) under a seeded scheduler; every answer is compared with a fresh eagerly extrapolated Curve and an independent super-additive-closure model; any panic (RefCell) is a violation with the operation history as replay."),
    "C14": ("3.10", "deterministic simulation: recorded job-cost histories summed over every run of consecutive jobs against the inferred / extrapolated cost curves; cooperative query clients on one shared wcet::ExtrapolatingCurve against a fresh object and a min-plus model",
            "An execution-time source (frame patterns, variation, spikes, zero-cost jobs) records job-cost histories; wcet::Curve::from_trace(max_n) must dominate the cost of every run of n consecutive jobs anywhere in the history for every n up to its length, extrapolate(m) may not raise any value and must keep dominating. 2-5 handles sharing one wcet::ExtrapolatingCurve interleave cost_of_jobs / least_wcet / lazy job_cost_iter operations under a seeded scheduler and every answer is compared with a fresh object and an independent min-plus model. The pure invariants of Scalar / Multiframe / Curve / ExtrapolatingCurve ride along."),
    "C04": ("3.4", "deterministic simulation: ROS 2 executor stub under a reservation-server stub with online adversarial budget placement, every instance monitored against the real ECRTS'19 bounds",
            "A single-threaded ROS 2 executor stub (timers first, ready set refreshed only when empty, non-preemptive callbacks, chains activated on completion) runs under a reservation stub that places its budget online (early, late, early-then-late aligned with a burst, random, withheld while busy, over-provisioned, random grid phase). Arrivals anywhere the library's curves allow, execution times in [1,WCET]. Every instance of every timer / polled callback / chain (source arrival to completion of the last callback) / event source is monitored against the bound the real analysis returned. Half of the workloads use non-scalar cost models (wcet::Curve / ExtrapolatingCurve from a cyclic execution-time pattern the execution-time source follows), which makes the least-WCET term observable; a short guided (hill-climbing) search follows the random schedules. About 38% of bounds are attained exactly on the unchanged tree."),
    "C05": ("3.5", "deterministic simulation: same executor + reservation stubs; the rr / bw singleton-subchain analyses iterated to a self-consistent vector, every instance monitored against it",
            "The rr resp. bw subchain analysis is iterated upwards from the WCETs until it reproduces the assumed response-time vector exactly (otherwise no claim); the same executor and reservation stubs then run timers, polled callbacks with known and with unknown priority under adversarial arrivals, execution times and budget placement, and every instance is monitored against its entry of the vector. The RTSS'21 bounds are far from tight (about 16% attained), so only changes that fall below the true worst case of a sampled workload are visible."),
}

NOT_YET = {
}

NA = {
    "C06": "equality of nine pure functions with a brute-force evaluation of the same equations: no schedule, clock, fault or history to simulate (differential input/output testing; DESIGN.md section 4)",
    "C07": "same as C06 for the ROS 2 analyses: a relation between two evaluations of pure functions",
    "C08": "fixed_point::{search, search_with_offset, max_response_time} are pure functions of their arguments; nothing for a scheduler to interleave or a fault to hit",
    "C11": "steps_iter vs. pointwise differences of the same object: a relation between two pure evaluations",
    "C15": "a numerical function (Poisson quantile); a simulated Poisson source gives only statistical evidence that neither replays as a violation nor separates a wrong quantile from bad luck",
    "C16": "algebraic identities between RBF/Aggregate/Slice methods; no execution involved",
    "C17": "a metamorphic relation between two evaluations of pure functions on related inputs",
    "C19": "equality of pure functions on corresponding inputs",
    "C20": "totality and debug/release agreement quantify over inputs x compiler profile; no schedule or fault in it (the campaigns report analysis panics and watchdog hits as by-products only)",
}

def main():
    checks = []
    for pid in sorted(BUILT):
        ref, technique, text = BUILT[pid]
        checks.append({
            "property_id": pid,
            "quick_cmd": "./check %s quick" % pid,
            "thorough_cmd": "./check %s thorough" % pid,
            "evidence_file": "/verif/evidence/%s.json" % pid,
            "replay_cmd_template": "./check replay {path}",
            "engine": "rtasim",
            "level_claimed": {"category": "exploration", "text": text, "design_ref": "DESIGN.md section " + ref},
            "level_note": "Trusted base: the stub kernels / servers / event sources in /verif/sim (written from the models the properties state, validated by bound-attainment rates with zero violations on the unchanged tree); the library's own number_arrivals defines admissible release sequences for C01-C05 (undercounting is C10's business). Evidence over sampled inputs and schedules only.",
            "technique": technique,
        })
    na = [{"property_id": k, "reason": v} for k, v in sorted({**NA, **NOT_YET}.items())]
    m = {
        "version": 1,
        "setup_cmd": "./check build",
        "hooks": {
            "guard": "rta_verif",
            "enable": "none needed: every seam the simulator uses is a public trait (ArrivalBound, JobCostModel, RequestBound, SupplyBound) or a public function; rtasim depends on /repo by path and rebuilds it from the working tree (cargo build --release --offline in /verif/sim)",
            "baseline_off_cmd": "cd /repo && cargo test --workspace --no-fail-fast --offline",
            "source_commits": [],
            "add_only": True,
        },
        "engines": [{
            "name": "rtasim",
            "path": "/verif/sim",
            "serves_properties": sorted(BUILT),
            "kind_free_text": "Rust binary: seeded deterministic simulators (uniprocessor scheduler kernel, ROS 2 executor + reservation server, event sources, query-client scheduler) driving the real analyses and models of /repo; explicit PRNG-free replay files with minimisation",
        }],
        "checks": checks,
        "not_applicable": na,
        "notes": "All checks: exit 0 held / 1 violation (VIOLATION property=<id> replay=<path>) / 2 harness error. VERIF_SEED selects the root seed (default 1), VERIF_TIER the tier. known_findings.txt lists repaired defects (fixed:) and would list recorded ones (known:). See DESIGN.md.",
    }
    with open("/verif/MANIFEST.json", "w") as f:
        json.dump(m, f, indent=1)
        f.write("\n")

if __name__ == "__main__":
    main()
