//! rtasim — deterministic simulation of schedulers, executors, reservation servers and event
//! sources against the real analyses and models of `response-time-analysis`.
//!
//! `rtasim check <PROPERTY> [--tier quick|thorough] [--seed N] [--jobs N] [--evidence FILE]
//!               [--replay-dir DIR] [--known FILE] [--scale PCT]`
//! `rtasim replay <FILE>`
//!
//! Exit codes: 0 property held on everything explored, 1 violation, 2 harness error.


mod analysis;
mod derived;
mod desc;
mod extrap;
mod gen;
mod harness;
mod json;
mod release;
mod rng;
mod ros;
mod roscheck;
mod stats;
mod streams;
mod supplysim;
mod uni;
mod unicheck;
mod unisched;
mod wcetsim;

use std::path::PathBuf;

use harness::Options;

fn usage() -> ! {
    eprintln!(
        "usage: rtasim check <PROPERTY> [--tier quick|thorough] [--seed N] [--jobs N] \
         [--evidence FILE] [--replay-dir DIR] [--known FILE] [--scale PCT]\n       rtasim replay <FILE>"
    );
    std::process::exit(2);
}

fn main() {
    analysis::install_quiet_panic_hook();
    let args: Vec<String> = std::env::args().collect();
    if args.len() < 3 {
        usage();
    }
    match args[1].as_str() {
        "check" => {
            let mut opt = Options {
                prop: args[2].clone(),
                tier: std::env::var("VERIF_TIER").unwrap_or_else(|_| "quick".into()),
                seed: std::env::var("VERIF_SEED")
                    .ok()
                    .and_then(|s| s.trim().parse::<u64>().ok())
                    .unwrap_or(1),
                jobs: std::thread::available_parallelism()
                    .map(|n| n.get())
                    .unwrap_or(4)
                    .min(16),
                evidence: None,
                replay_dir: PathBuf::from("/verif/replays"),
                known_file: PathBuf::from("/verif/known_findings.txt"),
                scale_pct: 100,
                verbose: false,
            };
            let mut i = 3;
            while i < args.len() {
                let need = |i: usize| -> &String {
                    args.get(i + 1).unwrap_or_else(|| usage())
                };
                match args[i].as_str() {
                    "--tier" => {
                        opt.tier = need(i).clone();
                        i += 1;
                    }
                    "--seed" => {
                        opt.seed = need(i).parse().unwrap_or_else(|_| usage());
                        i += 1;
                    }
                    "--jobs" => {
                        opt.jobs = need(i).parse().unwrap_or_else(|_| usage());
                        i += 1;
                    }
                    "--evidence" => {
                        opt.evidence = Some(PathBuf::from(need(i)));
                        i += 1;
                    }
                    "--replay-dir" => {
                        opt.replay_dir = PathBuf::from(need(i));
                        i += 1;
                    }
                    "--known" => {
                        opt.known_file = PathBuf::from(need(i));
                        i += 1;
                    }
                    "--scale" => {
                        opt.scale_pct = need(i).parse().unwrap_or_else(|_| usage());
                        i += 1;
                    }
                    "-v" => opt.verbose = true,
                    _ => usage(),
                }
                i += 1;
            }
            if opt.tier != "quick" && opt.tier != "thorough" {
                usage();
            }
            println!(
                "rtasim: property={} tier={} VERIF_SEED={} jobs={}",
                opt.prop, opt.tier, opt.seed, opt.jobs
            );
            let code = match opt.prop.as_str() {
                "C01" => unicheck::run_uni_property(&opt, "C01"),
                "C02" => unicheck::run_uni_property(&opt, "C02"),
                "C03" => unicheck::run_uni_property(&opt, "C03"),
                "C18" => unicheck::run_c18(&opt),
                "C04" => roscheck::run_ros_property(&opt, "C04"),
                "C05" => roscheck::run_ros_property(&opt, "C05"),
                "C09" => supplysim::run_c09(&opt),
                "C10" => streams::run_c10(&opt),
                "C12" => derived::run_c12(&opt),
                "C13" => extrap::run_c13(&opt),
                "C14" => wcetsim::run_c14(&opt),
                other => {
                    eprintln!("HARNESS-ERROR: no check for property {}", other);
                    2
                }
            };
            println!("rtasim: exit {}", code);
            std::process::exit(code);
        }
        "debug-coincidence" => {
            // bounds of the first N "late coincidence" task sets (differential debugging aid)
            let n: u64 = args.get(2).and_then(|v| v.parse().ok()).unwrap_or(100);
            let seed: u64 = args.get(3).and_then(|v| v.parse().ok()).unwrap_or(1);
            for k in 0..n {
                let mut rng = rng::Rng::new(rng::Rng::run_seed(seed, "debug-coincidence", k));
                let ts = gen::coincidence_taskset(&mut rng);
                let prep = unisched::prepare(&ts);
                let l = prep.as_ref().and_then(|p| p.l_obs);
                let mut line = format!("{} l_obs={:?}", k, l);
                for v in [uni::Variant::Fifo, uni::Variant::FpNp, uni::Variant::FpP, uni::Variant::EdfNp] {
                    let o = analysis::analyse_all(&ts, v, 0);
                    line.push_str(&format!(" {}={:?}", v, o));
                }
                println!("{}", line);
            }
        }
        "debug-tight" => {
            let text = std::fs::read_to_string(&args[2]).unwrap();
            unicheck::debug_tight(&text);
        }
        "replay" => {
            let path = &args[2];
            let text = match std::fs::read_to_string(path) {
                Ok(t) => t,
                Err(e) => {
                    eprintln!("HARNESS-ERROR: cannot read {}: {}", path, e);
                    std::process::exit(2);
                }
            };
            let engine = text
                .lines()
                .find_map(|l| l.trim().strip_prefix("engine ").map(|s| s.trim().to_string()))
                .unwrap_or_default();
            let code = match engine.as_str() {
                "uni" => unicheck::replay_uni(path, &text),
                "uni-tight" => unicheck::replay_tight(path, &text),
                "supply" => supplysim::replay_supply(path, &text),
                "ros" => roscheck::replay_ros(path, &text),
                "stream" => streams::replay_stream(path, &text),
                "derived" => derived::replay_derived(path, &text),
                "extrap" => extrap::replay_extrap(path, &text),
                "wcet" => wcetsim::replay_wcet(path, &text),
                other => {
                    eprintln!("HARNESS-ERROR: unknown replay engine '{}'", other);
                    2
                }
            };
            std::process::exit(code);
        }
        _ => usage(),
    }
}
