//! Common end-of-run handling: known findings, minimisation, replay files,
//! VIOLATION / KNOWN-FINDING lines, evidence file, exit code.

use std::collections::BTreeMap;
use std::path::{Path, PathBuf};

use crate::json::Json;
use crate::stats::{Acc, Report};

#[derive(Clone, Debug)]
pub struct Options {
    pub prop: String,
    pub tier: String,
    pub seed: u64,
    pub jobs: usize,
    pub evidence: Option<PathBuf>,
    pub replay_dir: PathBuf,
    pub known_file: PathBuf,
    /// scale factor on the run budget (testing aid; 100 = as registered)
    pub scale_pct: u64,
    pub verbose: bool,
}

impl Options {
    pub fn thorough(&self) -> bool {
        self.tier == "thorough"
    }
    pub fn scaled(&self, n: u64) -> u64 {
        (n * self.scale_pct / 100).max(1)
    }
}

#[derive(Clone, Debug)]
pub struct Known {
    pub property: String,
    pub key: String,
    pub what: String,
}

/// `known_findings.txt`: one entry per line,
/// `known: property=<id> key=<finding key> :: <what fails>` or
/// `fixed: property=<id> <commit> <what failed>` (fixed entries suppress nothing).
pub fn load_known(path: &Path) -> Vec<Known> {
    let mut out = Vec::new();
    let text = match std::fs::read_to_string(path) {
        Ok(t) => t,
        Err(_) => return out,
    };
    for line in text.lines() {
        let line = line.trim();
        if let Some(rest) = line.strip_prefix("known:") {
            let (head, what) = match rest.split_once("::") {
                Some((h, w)) => (h.trim(), w.trim()),
                None => (rest.trim(), ""),
            };
            let mut property = String::new();
            let mut key = String::new();
            if let Some(pos) = head.find("key=") {
                key = head[pos + 4..].trim().to_string();
                for tok in head[..pos].split_whitespace() {
                    if let Some(p) = tok.strip_prefix("property=") {
                        property = p.to_string();
                    }
                }
            }
            if !property.is_empty() && !key.is_empty() {
                out.push(Known {
                    property,
                    key,
                    what: what.to_string(),
                });
            }
        }
    }
    out
}

/// For `rtasim replay`: is a reproduced violation with this finding key a recorded known finding?
/// (The replay then prints the KNOWN-FINDING line and exits 0, like the check itself.)
pub fn known_match(prop: &str, key: &str) -> Option<String> {
    let path = std::env::var("RTASIM_KNOWN").unwrap_or_else(|_| "/verif/known_findings.txt".into());
    load_known(Path::new(&path))
        .into_iter()
        .find(|k| k.property == prop && k.key == key)
        .map(|k| k.what)
}

pub struct Outcome {
    pub exit_code: i32,
}

/// `minimise`: takes an unminimised report, returns (minimised replay text, summary).
pub fn finish(
    opt: &Options,
    acc: &mut Acc,
    wall_s: f64,
    mut coverage: Json,
    assumptions: &[&str],
    minimise: &dyn Fn(&Report) -> (String, String),
) -> Outcome {
    let known = load_known(&opt.known_file);
    let mut reports = std::mem::take(&mut acc.reports);
    reports.sort_by(|a, b| a.order.cmp(&b.order));
    let total_violations = acc.counters.get("violations");

    let mut matched: BTreeMap<String, (u64, String)> = BTreeMap::new();
    let mut unlisted: Vec<&Report> = Vec::new();
    for r in &reports {
        if let Some(kf) = known
            .iter()
            .find(|kf| kf.property == opt.prop && kf.key == r.key)
        {
            let e = matched
                .entry(kf.key.clone())
                .or_insert((0, kf.what.clone()));
            e.0 += 1;
        } else {
            unlisted.push(r);
        }
    }
    for (key, (_n, what)) in &matched {
        println!(
            "KNOWN-FINDING: property={} {} [key: {}]",
            opt.prop, what, key
        );
    }
    let mut exit_code = 0;
    let mut written: Vec<String> = Vec::new();
    let mut per_key: BTreeMap<String, usize> = BTreeMap::new();
    for r in &unlisted {
        let n = per_key.entry(r.key.clone()).or_insert(0);
        *n += 1;
        if *n > 1 || written.len() >= 6 {
            continue; // one minimised replay per class, at most six classes
        }
        exit_code = 1;
        let (text, summary) = minimise(r);
        let _ = std::fs::create_dir_all(&opt.replay_dir);
        let fname = format!(
            "{}-seed{}-{}-{}.replay",
            opt.prop, opt.seed, r.order.0, r.order.1
        );
        let path = opt.replay_dir.join(fname);
        if let Err(e) = std::fs::write(&path, &text) {
            eprintln!("HARNESS-ERROR: cannot write replay file {:?}: {}", path, e);
            std::process::exit(2);
        }
        println!("violation: {}", summary);
        println!("VIOLATION property={} replay={}", opt.prop, path.display());
        written.push(path.display().to_string());
    }
    if !unlisted.is_empty() {
        exit_code = 1;
    }

    coverage.set(
        "samples",
        Json::Arr(acc.samples.iter().map(|(_, j)| j.clone()).collect()),
    );
    // wall-clock measurements are kept apart so that `counters` is a pure function of the seed
    let timing = acc.counters.subset_json("time_us.");
    acc.counters.c.retain(|k, _| !k.starts_with("time_us."));
    coverage.set("counters", acc.counters.to_json());
    coverage.set("timing_us", timing);
    coverage.set("fault_kinds_fired", acc.counters.subset_json("fault."));
    coverage.set("reach_probes", acc.counters.subset_json("probe."));
    coverage.set("digest", Json::str(format!("{:016x}", acc.digest)));
    let evals = match &coverage {
        Json::Obj(items) => items
            .iter()
            .find(|(k, _)| k == "evaluations")
            .and_then(|(_, v)| if let Json::Int(i) = v { Some(*i) } else { None })
            .unwrap_or(0),
        _ => 0,
    };
    if wall_s > 0.0 {
        coverage.set(
            "runs_per_hour",
            Json::Int((evals as f64 / wall_s * 3600.0) as i128),
        );
    }
    coverage.set(
        "violation_classes",
        Json::Arr(
            per_key
                .iter()
                .map(|(k, n)| Json::str(format!("{} (x{})", k, n)))
                .collect(),
        ),
    );
    coverage.set(
        "known_findings_matched",
        Json::Arr(
            matched
                .iter()
                .map(|(k, (n, _))| Json::str(format!("{} (x{})", k, n)))
                .collect(),
        ),
    );
    coverage.set("replay_files", Json::arr_str(&written));

    let mut ev = Json::obj();
    ev.set("property_id", Json::str(opt.prop.clone()));
    ev.set("tier", Json::str(opt.tier.clone()));
    ev.set("seed", Json::Int(opt.seed as i128));
    ev.set("level", Json::str("exploration"));
    ev.set("coverage", coverage);
    ev.set(
        "assumptions",
        Json::Arr(assumptions.iter().map(|s| Json::str(*s)).collect()),
    );
    ev.set("wall_s", Json::Float(wall_s));
    ev.set(
        "violations",
        Json::Int(unlisted.len().max(if exit_code == 1 { 1 } else { 0 }) as i128),
    );
    ev.set("violations_total_including_known", Json::Int(total_violations as i128));
    if let Some(p) = &opt.evidence {
        if let Some(dir) = p.parent() {
            let _ = std::fs::create_dir_all(dir);
        }
        if let Err(e) = std::fs::write(p, ev.render()) {
            eprintln!("HARNESS-ERROR: cannot write evidence file {:?}: {}", p, e);
            std::process::exit(2);
        }
    }
    Outcome { exit_code }
}

pub const REAL_STUB_UNI: (&[&str], &[&str]) = (
    &[
        "response_time_analysis::fixed_priority::* / edf::* / fifo::dedicated_uniproc_rta (real, release profile, via public API)",
        "response_time_analysis::fixed_point::*, demand::{RBF,Aggregate,Slice}, arrival::*, wcet::Scalar (real)",
    ],
    &[
        "uniprocessor scheduler kernel FP/EDF/FIFO x {preemptive, non-preemptive, limited-preemptive, floating} (stub, sim/src/uni.rs)",
        "event sources / execution-time source / NP-region placer / tie breaker (stub adversary, sim/src/unisched.rs, release.rs)",
    ],
);

pub fn components_json(real: &[&str], stub: &[&str]) -> Json {
    let mut j = Json::obj();
    j.set(
        "real_code",
        Json::Arr(real.iter().map(|s| Json::str(*s)).collect()),
    );
    j.set(
        "stubs",
        Json::Arr(stub.iter().map(|s| Json::str(*s)).collect()),
    );
    j
}
