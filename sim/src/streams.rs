//! Event-source simulation for C10 (and shared by C12/C13): streams generated from the
//! *documented process* of each arrival model — not from the library's curve — recorded as an
//! explicit, replayable tree, and the window-count oracle over the recorded history.

use std::fmt;

use response_time_analysis::arrival::ArrivalBound;

use crate::analysis::guarded;
use crate::desc::{d, parse_arrival, ArrDesc};
use crate::harness::{components_json, finish, Options};
use crate::json::Json;
use crate::rng::{hash_str, Fingerprint, Rng};
use crate::stats::{run_parallel_then, Acc, Distinct, Report};

/// The recorded generation history of one event stream; mirrors the structure of the model.
#[derive(Clone, Debug, PartialEq, Eq)]
pub enum Stream {
    /// events of a leaf model (Periodic, Sporadic, Curve, ExtrapolatingCurve, ArrivalCurvePrefix)
    Leaf(Vec<u64>),
    /// every event of the inner stream (in the inner stream's sorted order) delayed by the
    /// given amount (Propagated / clone_with_jitter)
    Delayed(Box<Stream>, Vec<u64>),
    /// superposition (Vec / slice / sum_of)
    Merged(Vec<Stream>),
}

impl Stream {
    pub fn events(&self) -> Vec<u64> {
        match self {
            Stream::Leaf(v) => {
                let mut v = v.clone();
                v.sort();
                v
            }
            Stream::Delayed(inner, delays) => {
                let base = inner.events();
                let mut out: Vec<u64> = base
                    .iter()
                    .enumerate()
                    .map(|(i, t)| t + delays.get(i).copied().unwrap_or(0))
                    .collect();
                out.sort();
                out
            }
            Stream::Merged(parts) => {
                let mut out: Vec<u64> = parts.iter().flat_map(|p| p.events()).collect();
                out.sort();
                out
            }
        }
    }

    pub fn leaf_count(&self) -> usize {
        match self {
            Stream::Leaf(_) => 1,
            Stream::Delayed(i, _) => i.leaf_count(),
            Stream::Merged(p) => p.iter().map(|x| x.leaf_count()).sum(),
        }
    }

    /// Apply `f` to the `idx`-th leaf (depth-first order); keeps delay vectors aligned by
    /// truncating them to the new number of inner events.
    pub fn map_leaf(&self, idx: usize, f: &dyn Fn(&[u64]) -> Vec<u64>) -> Stream {
        fn go(s: &Stream, idx: &mut isize, f: &dyn Fn(&[u64]) -> Vec<u64>) -> Stream {
            match s {
                Stream::Leaf(v) => {
                    let hit = *idx == 0;
                    *idx -= 1;
                    if hit {
                        Stream::Leaf(f(v))
                    } else {
                        Stream::Leaf(v.clone())
                    }
                }
                Stream::Delayed(inner, delays) => {
                    let ni = go(inner, idx, f);
                    let n = ni.events().len();
                    let mut dl = delays.clone();
                    dl.truncate(n);
                    Stream::Delayed(Box::new(ni), dl)
                }
                Stream::Merged(parts) => Stream::Merged(parts.iter().map(|p| go(p, idx, f)).collect()),
            }
        }
        let mut i = idx as isize;
        go(self, &mut i, f)
    }
}

impl fmt::Display for Stream {
    fn fmt(&self, f: &mut fmt::Formatter<'_>) -> fmt::Result {
        let join = |v: &[u64]| v.iter().map(|x| x.to_string()).collect::<Vec<_>>().join(",");
        match self {
            Stream::Leaf(v) => write!(f, "E[{}]", join(v)),
            Stream::Delayed(inner, delays) => write!(f, "D({};{})", inner, join(delays)),
            Stream::Merged(parts) => {
                let p: Vec<String> = parts.iter().map(|x| x.to_string()).collect();
                write!(f, "M[{}]", p.join("|"))
            }
        }
    }
}

pub fn parse_stream(text: &str) -> Result<Stream, String> {
    struct P<'a> {
        s: &'a [u8],
        pos: usize,
    }
    impl<'a> P<'a> {
        fn peek(&self) -> Option<u8> {
            self.s.get(self.pos).copied()
        }
        fn expect(&mut self, c: u8) -> Result<(), String> {
            if self.peek() == Some(c) {
                self.pos += 1;
                Ok(())
            } else {
                Err(format!("expected '{}' at {}", c as char, self.pos))
            }
        }
        fn nums(&mut self, close: u8) -> Result<Vec<u64>, String> {
            let mut v = Vec::new();
            loop {
                if self.peek() == Some(close) {
                    self.pos += 1;
                    return Ok(v);
                }
                let st = self.pos;
                while matches!(self.peek(), Some(b'0'..=b'9')) {
                    self.pos += 1;
                }
                if st == self.pos {
                    return Err(format!("expected number at {}", st));
                }
                v.push(
                    std::str::from_utf8(&self.s[st..self.pos])
                        .unwrap()
                        .parse::<u64>()
                        .map_err(|e| e.to_string())?,
                );
                if self.peek() == Some(b',') {
                    self.pos += 1;
                }
            }
        }
        fn stream(&mut self) -> Result<Stream, String> {
            match self.peek() {
                Some(b'E') => {
                    self.pos += 1;
                    self.expect(b'[')?;
                    Ok(Stream::Leaf(self.nums(b']')?))
                }
                Some(b'D') => {
                    self.pos += 1;
                    self.expect(b'(')?;
                    let inner = self.stream()?;
                    self.expect(b';')?;
                    let delays = self.nums(b')')?;
                    Ok(Stream::Delayed(Box::new(inner), delays))
                }
                Some(b'M') => {
                    self.pos += 1;
                    self.expect(b'[')?;
                    let mut parts = Vec::new();
                    loop {
                        if self.peek() == Some(b']') {
                            self.pos += 1;
                            break;
                        }
                        parts.push(self.stream()?);
                        if self.peek() == Some(b'|') {
                            self.pos += 1;
                        }
                    }
                    Ok(Stream::Merged(parts))
                }
                other => Err(format!("bad stream at {}: {:?}", self.pos, other.map(|b| b as char))),
            }
        }
    }
    let mut p = P {
        s: text.trim().as_bytes(),
        pos: 0,
    };
    let s = p.stream()?;
    if p.pos != p.s.len() {
        return Err("trailing input in stream".into());
    }
    Ok(s)
}

// ---------------------------------------------------------------------------
// documented processes

/// Greedy generation under delta-min constraints for the recorded n only:
/// `dmin[i]` = minimum distance between the first and last of `i + 2` consecutive events.
pub fn gen_dmin_stream(dmin: &[u64], horizon: u64, max_events: usize, delay_p: u64, delay_max: u64, rng: &mut Rng) -> Vec<u64> {
    let mut t: Vec<u64> = Vec::new();
    let mut first = rng.below(4);
    while t.len() < max_events {
        let n = t.len();
        let mut lb = first;
        first = 0;
        for k in 1..=dmin.len().min(n) {
            lb = lb.max(t[n - k] + dmin[k - 1]);
        }
        if delay_p > 0 && rng.chance(delay_p, 100) {
            lb += rng.range(1, delay_max.max(1));
        }
        if lb > horizon {
            break;
        }
        t.push(lb);
    }
    t
}

pub fn dmin_stream_ok(dmin: &[u64], t: &[u64]) -> Result<(), String> {
    for i in 0..t.len() {
        if i > 0 && t[i] < t[i - 1] {
            return Err("leaf events not sorted".into());
        }
        for k in 1..=dmin.len() {
            if i + k < t.len() && t[i + k] - t[i] < dmin[k - 1] {
                return Err(format!(
                    "{} events within distance {} < dmin {}",
                    k + 1,
                    t[i + k] - t[i],
                    dmin[k - 1]
                ));
            }
        }
    }
    Ok(())
}

/// delta-min constraints implied by an ArrivalCurvePrefix inside its horizon.
pub fn prefix_constraints(horizon: u64, steps: &[(u64, usize)]) -> Vec<u64> {
    // k events need a window of length >= first δ with η(δ) >= k, i.e. distance δ - 1;
    // more events than fit the horizon need a window longer than the horizon
    let max_n = steps.last().map(|s| s.1).unwrap_or(0);
    let mut out = Vec::new();
    for k in 2..=(max_n + 1) {
        let need = steps
            .iter()
            .find(|(_, n)| *n >= k)
            .map(|(delta, _)| delta - 1)
            .unwrap_or(horizon);
        out.push(need);
    }
    out
}

#[derive(Clone, Copy, Debug, PartialEq, Eq)]
pub enum DelayProfile {
    None,
    Random,
    /// the first events get the full delay, later ones less and less (bunching)
    FirstLate,
    Alternating,
    AllMax,
}

fn delays_for(profile: DelayProfile, n: usize, j: u64, step: u64, rng: &mut Rng, stats: &mut [u64; 6]) -> Vec<u64> {
    let mut out = Vec::with_capacity(n);
    for k in 0..n {
        let dl = match profile {
            DelayProfile::None => 0,
            DelayProfile::Random => rng.range(0, j),
            DelayProfile::FirstLate => j.saturating_sub(k as u64 * step),
            DelayProfile::Alternating => {
                if k % 2 == 0 {
                    j
                } else {
                    0
                }
            }
            DelayProfile::AllMax => j,
        };
        if dl > 0 {
            stats[0] += 1;
        }
        out.push(dl);
    }
    out
}

/// stats: [jitter_delay, gap_stretch, simultaneous, reordered, merged_streams, dense_streams]
pub fn gen_stream(desc: &ArrDesc, horizon: u64, max_events: usize, rng: &mut Rng, stats: &mut [u64; 6], force_dense: bool) -> Stream {
    match desc {
        ArrDesc::Never | ArrDesc::Poisson(..) => Stream::Leaf(vec![]),
        ArrDesc::User(t, k, g) => {
            // the process its author has in mind: k simultaneous events every T (and, for g > 0,
            // k more g ticks later)
            let t = (*t).max(1);
            let phase = if force_dense { 0 } else { rng.below(t) };
            let mut v = Vec::new();
            let mut x = phase;
            while x <= horizon && v.len() < max_events {
                for _ in 0..(*k).max(1) {
                    v.push(x);
                }
                if *g > 0 && x + *g <= horizon {
                    for _ in 0..(*k).max(1) {
                        v.push(x + *g);
                    }
                }
                x += t;
            }
            v.sort();
            Stream::Leaf(v)
        }
        ArrDesc::Periodic(t) => {
            let phase = if force_dense { 0 } else { rng.below(*t) };
            let mut v = Vec::new();
            let mut x = phase;
            while x <= horizon && v.len() < max_events {
                v.push(x);
                x += *t;
            }
            Stream::Leaf(v)
        }
        ArrDesc::Sporadic(t, j) => {
            // arrivals with gaps >= T, each release delayed by at most J
            let mut arrivals = Vec::new();
            let mut a = if force_dense { 0 } else { rng.below(*t) };
            let stretch_p = if force_dense { 0 } else { *rng.pick(&[0u64, 0, 10, 40]) };
            while a <= horizon && arrivals.len() < max_events {
                arrivals.push(a);
                a += *t;
                if stretch_p > 0 && rng.chance(stretch_p, 100) {
                    a += rng.range(1, 2 * *t);
                    stats[1] += 1;
                }
            }
            let profile = if force_dense {
                DelayProfile::FirstLate
            } else {
                *rng.pick(&[
                    DelayProfile::None,
                    DelayProfile::Random,
                    DelayProfile::FirstLate,
                    DelayProfile::Alternating,
                    DelayProfile::AllMax,
                ])
            };
            let dl = delays_for(profile, arrivals.len(), *j, *t, rng, stats);
            // a sporadic-with-jitter leaf is recorded as its release times
            let mut rel: Vec<u64> = arrivals.iter().zip(dl.iter()).map(|(a, x)| a + x).collect();
            let sorted_before = rel.windows(2).all(|w| w[0] <= w[1]);
            if !sorted_before {
                stats[3] += 1;
            }
            rel.sort();
            Stream::Leaf(rel)
        }
        ArrDesc::Curve(v) | ArrDesc::Extrap(v) => {
            let (p, m) = if force_dense {
                (0, 0)
            } else {
                (*rng.pick(&[0u64, 0, 10, 30]), rng.range(1, v[0].max(2)))
            };
            if p == 0 {
                stats[5] += 1;
            }
            Stream::Leaf(gen_dmin_stream(v, horizon, max_events, p, m, rng))
        }
        ArrDesc::Prefix(h, steps) => {
            let c = prefix_constraints(*h, steps);
            let (p, m) = if force_dense {
                (0, 0)
            } else {
                (*rng.pick(&[0u64, 0, 10, 30]), rng.range(1, (*h / 4).max(2)))
            };
            if c.is_empty() {
                return Stream::Leaf(vec![]);
            }
            Stream::Leaf(gen_dmin_stream(&c, horizon, max_events, p, m, rng))
        }
        ArrDesc::Jittered(inner, j) | ArrDesc::Propagated(inner, j) => {
            let s = gen_stream(inner, horizon, max_events, rng, stats, force_dense);
            let ev = s.events();
            let profile = if force_dense {
                DelayProfile::FirstLate
            } else {
                *rng.pick(&[
                    DelayProfile::None,
                    DelayProfile::Random,
                    DelayProfile::Random,
                    DelayProfile::FirstLate,
                    DelayProfile::Alternating,
                    DelayProfile::AllMax,
                ])
            };
            let step = if ev.len() >= 2 { (ev[1] - ev[0]).max(1) } else { 1 };
            let dl = delays_for(profile, ev.len(), *j, step, rng, stats);
            let out: Vec<u64> = ev.iter().zip(dl.iter()).map(|(a, x)| a + x).collect();
            if !out.windows(2).all(|w| w[0] <= w[1]) {
                stats[3] += 1;
            }
            Stream::Delayed(Box::new(s), dl)
        }
        ArrDesc::Vec(parts) | ArrDesc::Slice(parts) => {
            stats[4] += 1;
            Stream::Merged(
                parts
                    .iter()
                    .map(|p| gen_stream(p, horizon, max_events, rng, stats, force_dense))
                    .collect(),
            )
        }
        ArrDesc::SumOf(a, b) => {
            stats[4] += 1;
            Stream::Merged(vec![
                gen_stream(a, horizon, max_events, rng, stats, force_dense),
                gen_stream(b, horizon, max_events, rng, stats, force_dense),
            ])
        }
        ArrDesc::Rc(a) => gen_stream(a, horizon, max_events, rng, stats, force_dense),
    }
}

/// Is `stream` a legal history of the process documented for `desc`?
pub fn stream_admissible(desc: &ArrDesc, stream: &Stream) -> Result<(), String> {
    match (desc, stream) {
        (ArrDesc::Never, Stream::Leaf(v)) | (ArrDesc::Poisson(..), Stream::Leaf(v)) => {
            if v.is_empty() {
                Ok(())
            } else {
                Err("Never releases nothing".into())
            }
        }
        (ArrDesc::User(t, k, g), Stream::Leaf(v)) => {
            // at most k events per instant; all instants at base + i*T or base + g + i*T for one
            // base (the first event may belong to a first or to a second burst)
            if v.is_empty() {
                return Ok(());
            }
            if v.windows(2).any(|w| w[0] > w[1]) {
                return Err("events not sorted".into());
            }
            let t = (*t).max(1) as i128;
            let k = (*k).max(1) as usize;
            let g = *g as i128;
            let mut i = 0;
            while i < v.len() {
                let mut j = i;
                while j < v.len() && v[j] == v[i] {
                    j += 1;
                }
                if j - i > k {
                    return Err(format!("{} events at instant {}, burst size is {}", j - i, v[i], k));
                }
                i = j;
            }
            let fits = |base: i128| -> bool {
                v.iter().all(|x| {
                    let r = (*x as i128 - base).rem_euclid(t);
                    r == 0 || (g > 0 && r == g % t)
                })
            };
            if fits(v[0] as i128) || (g > 0 && fits(v[0] as i128 - g)) {
                Ok(())
            } else {
                Err(format!("events are off the burst grid (T = {}, gap = {})", t, g))
            }
        }
        (ArrDesc::Periodic(t), Stream::Leaf(v)) => {
            for w in v.windows(2) {
                if w[1] < w[0] || w[1] - w[0] != *t {
                    return Err(format!("periodic events not exactly {} apart", t));
                }
            }
            Ok(())
        }
        (ArrDesc::Sporadic(t, j), Stream::Leaf(v)) => {
            // feasibility of an arrival assignment: a_k in [r_k - J, r_k], gaps >= T
            let mut prev: Option<u64> = None;
            for (i, r) in v.iter().enumerate() {
                if i > 0 && *r < v[i - 1] {
                    return Err("leaf events not sorted".into());
                }
                let earliest = r.saturating_sub(*j);
                let a = match prev {
                    None => earliest,
                    Some(p) => earliest.max(p + *t),
                };
                if a > *r {
                    return Err(format!(
                        "release {} cannot stem from an arrival >= {} (min inter-arrival {}, jitter {})",
                        r, a, t, j
                    ));
                }
                prev = Some(a);
            }
            Ok(())
        }
        (ArrDesc::Curve(dm), Stream::Leaf(v)) | (ArrDesc::Extrap(dm), Stream::Leaf(v)) => {
            dmin_stream_ok(dm, v)
        }
        (ArrDesc::Prefix(h, steps), Stream::Leaf(v)) => {
            dmin_stream_ok(&prefix_constraints(*h, steps), v)
        }
        (ArrDesc::Jittered(inner, j), Stream::Delayed(s, dl))
        | (ArrDesc::Propagated(inner, j), Stream::Delayed(s, dl)) => {
            stream_admissible(inner, s)?;
            if dl.len() != s.events().len() {
                return Err("delay vector does not match the inner stream".into());
            }
            if dl.iter().any(|x| *x > *j) {
                return Err(format!("delay exceeds the added jitter {}", j));
            }
            Ok(())
        }
        (ArrDesc::Vec(parts), Stream::Merged(ss)) | (ArrDesc::Slice(parts), Stream::Merged(ss)) => {
            if parts.len() != ss.len() {
                return Err("merged stream does not match the vector model".into());
            }
            for (p, s) in parts.iter().zip(ss.iter()) {
                stream_admissible(p, s)?;
            }
            Ok(())
        }
        (ArrDesc::SumOf(a, b), Stream::Merged(ss)) => {
            if ss.len() != 2 {
                return Err("sum_of needs two component streams".into());
            }
            stream_admissible(a, &ss[0])?;
            stream_admissible(b, &ss[1])
        }
        (ArrDesc::Rc(a), s) => stream_admissible(a, s),
        _ => Err("stream structure does not match the model structure".into()),
    }
}

/// Window-count oracle: first pair (i, j) with more events in `[t_i, t_j]` than
/// `number_arrivals(t_j - t_i + 1)` allows.
pub fn first_overfull_window(ab: &dyn ArrivalBound, ev: &[u64]) -> Option<(usize, usize, usize)> {
    for i in 0..ev.len() {
        for j in i..ev.len() {
            let len = ev[j] - ev[i] + 1;
            let allowed = ab.number_arrivals(d(len));
            if j - i + 1 > allowed {
                return Some((i, j, allowed));
            }
        }
    }
    None
}

fn replay_text(prop: &str, kind: &str, model: &ArrDesc, stream: &Stream, detail: &str, note: &str) -> String {
    format!(
        "rtasim-replay 1\nproperty {}\nengine stream\nkind {}\nmodel {}\nstream {}\nexpect {}\nnote {}\n",
        prop, kind, model, stream, detail, note
    )
}

// ---------------------------------------------------------------------------
// C10

pub fn random_model(rng: &mut Rng) -> ArrDesc {
    let period = rng.range(1, 40);
    let mut sw = crate::gen::ArrSwarm::random(rng);
    // a user-defined leaf (bursts of k every T) under the library's wrappers and compositions
    sw.allow_user = true;
    // ExtrapolatingCurve (caching; decided in depth by C13) takes part here with the process
    // "sequences respecting the given delta-min prefix"
    let m = crate::gen::random_arrival(rng, period.max(2), &sw);
    if rng.chance(1, 50) {
        ArrDesc::Never
    } else if rng.chance(1, 12) {
        // deeper composition
        let p2 = rng.range(2, 60);
        ArrDesc::Vec(vec![m, crate::gen::random_arrival(rng, p2, &sw)])
    } else {
        m
    }
}

/// Does the model contain a caching (history-dependent) component?
pub fn has_extrap(m: &ArrDesc) -> bool {
    match m {
        ArrDesc::Extrap(_) => true,
        ArrDesc::Jittered(a, _) | ArrDesc::Propagated(a, _) | ArrDesc::Rc(a) => has_extrap(a),
        ArrDesc::Vec(v) | ArrDesc::Slice(v) => v.iter().any(has_extrap),
        ArrDesc::SumOf(a, b) => has_extrap(a) || has_extrap(b),
        _ => false,
    }
}

/// Windows `[t_i, t_j]` queried in the given order on one (fresh) object; first overfull one.
pub fn first_overfull_in_order(
    ab: &dyn ArrivalBound,
    ev: &[u64],
    order: &[(usize, usize)],
) -> Option<(usize, usize, usize)> {
    for (i, j) in order {
        let (i, j) = (*i, *j);
        if i > j || j >= ev.len() {
            continue;
        }
        let allowed = ab.number_arrivals(d(ev[j] - ev[i] + 1));
        if j - i + 1 > allowed {
            return Some((i, j, allowed));
        }
    }
    None
}

fn order_text(order: &[(usize, usize)]) -> String {
    order.iter().map(|(i, j)| format!("{}:{}", i, j)).collect::<Vec<_>>().join(";")
}

fn parse_order(text: &str) -> Option<Vec<(usize, usize)>> {
    let mut v = Vec::new();
    for part in text.split(';') {
        let (a, b) = part.trim().split_once(':')?;
        v.push((a.parse().ok()?, b.parse().ok()?));
    }
    Some(v)
}

pub fn minimise_stream(model: &ArrDesc, stream: &Stream, fails: &dyn Fn(&Stream) -> bool) -> Stream {
    // trim leaf events from the end, then from the start, while the violation persists;
    // contiguous sub-sequences of a legal leaf history are legal for every leaf process
    let mut best = stream.clone();
    let mut progress = true;
    let mut rounds = 0;
    while progress && rounds < 6 {
        progress = false;
        rounds += 1;
        for li in 0..best.leaf_count() {
            for from_end in [true, false] {
                let mut step = 32usize;
                while step >= 1 {
                    let cand = best.map_leaf(li, &|v: &[u64]| {
                        if v.len() <= step {
                            return if step == 1 && v.len() == 1 { vec![] } else { v.to_vec() };
                        }
                        if from_end {
                            v[..v.len() - step].to_vec()
                        } else {
                            v[step..].to_vec()
                        }
                    });
                    // trimming from the start shifts the delay alignment: only accept if still legal
                    if cand != best && stream_admissible(model, &cand).is_ok() && fails(&cand) {
                        best = cand;
                        progress = true;
                    } else if step == 1 {
                        break;
                    } else {
                        step /= 2;
                    }
                }
            }
        }
    }
    best
}

pub struct StreamShared<'a> {
    pub root: u64,
    pub streams_per_model: u64,
    pub fps: &'a Distinct,
    pub nontrivial: &'a Distinct,
}

fn fp_of(model: &ArrDesc, ev: &[u64]) -> u64 {
    let mut fp = Fingerprint::new();
    fp.add(hash_str(&model.to_string()));
    for e in ev {
        fp.add(*e);
    }
    fp.finish()
}

pub fn c10_item(sh: &StreamShared, k: u64, acc: &mut Acc, note: &dyn Fn(&str)) {
    let mut rng = Rng::new(Rng::run_seed(sh.root, "C10", k));
    let model = random_model(&mut rng.split("model"));
    let caching = has_extrap(&model);
    note(&format!("C10 model#{} {}", k, model));
    acc.counters.inc("models");
    match &model {
        ArrDesc::Periodic(_) => acc.counters.inc("model.periodic"),
        ArrDesc::Sporadic(..) => acc.counters.inc("model.sporadic"),
        ArrDesc::Curve(_) => acc.counters.inc("model.curve"),
        ArrDesc::Prefix(..) => acc.counters.inc("model.prefix"),
        ArrDesc::Jittered(..) => acc.counters.inc("model.clone_with_jitter"),
        ArrDesc::Propagated(..) => acc.counters.inc("model.propagated"),
        ArrDesc::Vec(_) | ArrDesc::Slice(_) | ArrDesc::SumOf(..) => acc.counters.inc("model.superposition"),
        ArrDesc::Rc(_) => acc.counters.inc("model.rc"),
        ArrDesc::Never => acc.counters.inc("model.never"),
        ArrDesc::Extrap(_) => acc.counters.inc("model.extrapolating_curve"),
        ArrDesc::Poisson(..) | ArrDesc::User(..) => {}
    }
    if caching {
        acc.counters.inc("models_with_caching_component");
    }
    let horizon = rng.range(60, 600);
    let scan = horizon + 80;
    // library values along the scan: η(0) = 0, monotone; jitter composition a then b == a + b
    let ja = rng.below(30);
    let jb = rng.below(30);
    let m2 = model.clone();
    let tab = guarded(move || {
        let ab = m2.build();
        let two = ab.clone_with_jitter(d(ja)).clone_with_jitter(d(jb));
        let one = ab.clone_with_jitter(d(ja + jb));
        let eta: Vec<usize> = (0..=scan).map(|x| ab.number_arrivals(d(x))).collect();
        let e2: Vec<usize> = (0..=scan).map(|x| two.number_arrivals(d(x))).collect();
        let e1: Vec<usize> = (0..=scan).map(|x| one.number_arrivals(d(x))).collect();
        (eta, e2, e1)
    });
    let (eta, e2, e1) = match tab {
        Some(t) => t,
        None => {
            acc.counters.inc("probe.model_panics");
            acc.report(Report {
                order: (k, 0),
                key: format!("{} panics", model.kind_name()),
                summary: format!("{}: number_arrivals / clone_with_jitter panicked", model),
                replay: replay_text("C10", "shape", &model, &Stream::Leaf(vec![]), "library call panics", &format!("seed={} model={}", sh.root, k)),
            });
            return;
        }
    };
    let mut shape: Option<String> = None;
    if eta[0] != 0 {
        shape = Some(format!("number_arrivals(0) = {}", eta[0]));
    }
    for x in 1..eta.len() {
        if eta[x] < eta[x - 1] {
            shape = Some(format!("number_arrivals decreases at delta={} ({} -> {})", x, eta[x - 1], eta[x]));
            break;
        }
    }
    if shape.is_none() {
        for x in 0..eta.len() {
            if e2[x] != e1[x] {
                shape = Some(format!(
                    "adding jitter {} then {} gives {} arrivals at delta={}, adding {} gives {}",
                    ja, jb, e2[x], x, ja + jb, e1[x]
                ));
                break;
            }
        }
    }
    if let Some(msg) = shape {
        acc.report(Report {
            order: (k, 1),
            key: format!("{} shape", model.kind_name()),
            summary: format!("{}: {}", model, msg),
            replay: replay_text("C10", "shape", &model, &Stream::Leaf(vec![]), &format!("ja={} jb={} scan={} :: {}", ja, jb, scan, msg), &format!("seed={} model={}", sh.root, k)),
        });
    }
    // sub-additivity and attainment for the two exact models
    let exact = matches!(model, ArrDesc::Periodic(_) | ArrDesc::Sporadic(..));
    if exact {
        let mut srng = rng.split("subadd");
        for _ in 0..40 {
            let a = srng.range(1, scan / 2);
            let b = srng.range(1, scan / 2);
            acc.counters.inc("probe.subadditivity_checked");
            if eta[(a + b) as usize] > eta[a as usize] + eta[b as usize] {
                acc.report(Report {
                    order: (k, 2),
                    key: format!("{} not sub-additive", model.kind_name()),
                    summary: format!("{}: number_arrivals({}) > number_arrivals({}) + number_arrivals({})", model, a + b, a, b),
                    replay: replay_text("C10", "shape", &model, &Stream::Leaf(vec![]), &format!("subadd a={} b={}", a, b), &format!("seed={} model={}", sh.root, k)),
                });
                break;
            }
        }
    }

    let built = model.build();
    for sidx in 0..sh.streams_per_model {
        let mut srng = rng.split(&format!("s{}", sidx));
        let mut stats = [0u64; 6];
        let force_dense = sidx == 0;
        let stream = gen_stream(&model, horizon, 160, &mut srng, &mut stats, force_dense);
        if let Err(e) = stream_admissible(&model, &stream) {
            eprintln!("HARNESS-ERROR: event source produced a stream outside its documented process ({}): {}", model, e);
            std::process::exit(2);
        }
        let ev = stream.events();
        acc.counters.inc("runs");
        acc.counters.add("events", ev.len() as u64);
        acc.counters.add("sim_ticks", ev.last().copied().unwrap_or(0));
        acc.counters.add("fault.jitter_delay", stats[0]);
        acc.counters.add("fault.gap_stretch", stats[1]);
        acc.counters.add("fault.reordered_by_jitter", stats[3]);
        acc.counters.add("fault.streams_merged", stats[4]);
        let simul = ev.windows(2).filter(|w| w[0] == w[1]).count() as u64;
        acc.counters.add("fault.simultaneous_events", simul);
        let fpv = fp_of(&model, &ev);
        sh.fps.insert(fpv);
        acc.digest_add(fpv);
        if ev.len() >= 3 {
            sh.nontrivial.insert(fpv);
            acc.counters.inc("runs_nontrivial");
        }
        acc.counters.add("windows_checked", (ev.len() * (ev.len() + 1) / 2) as u64);
        // caching models: every stream is scanned on a fresh object (so that a replay file, which
        // starts from a fresh object too, sees the same query history), and a second fresh object
        // answers a handful of windows in random order (large jumps between consecutive queries)
        let fresh;
        let scan_on: &dyn ArrivalBound = if caching {
            fresh = model.build();
            &*fresh
        } else {
            &*built
        };
        if caching && ev.len() >= 2 {
            let mut orng = srng.split("order");
            let mut order: Vec<(usize, usize)> = Vec::new();
            for _ in 0..orng.range(2, 12) {
                let i = orng.index(ev.len());
                let j = i + orng.index(ev.len() - i);
                order.push((i, j));
            }
            acc.counters.inc("fault.queries_in_random_order");
            let probe = model.build();
            let res = guarded(|| first_overfull_in_order(&*probe, &ev, &order));
            let failure = match res {
                None => Some("number_arrivals panicked".to_string()),
                Some(Some((i, j, allowed))) => Some(format!(
                    "after the queries {} the admissible stream has {} events in [{}, {}] (length {}) but number_arrivals says {}",
                    order_text(&order), j - i + 1, ev[i], ev[j], ev[j] - ev[i] + 1, allowed
                )),
                Some(None) => None,
            };
            if let Some(why) = failure {
                acc.report(Report {
                    order: (k, 10 + sidx),
                    key: format!("{} undercounts", model.kind_name()),
                    summary: format!("{}: {}", model, why),
                    replay: replay_text(
                        "C10",
                        "order",
                        &model,
                        &stream,
                        &format!("queries={}", order_text(&order)),
                        &format!("seed={} model={} stream={}", sh.root, k, sidx),
                    ),
                });
                break;
            }
        }
        let res = guarded(|| first_overfull_window(scan_on, &ev));
        match res {
            None => {
                acc.report(Report {
                    order: (k, 10 + sidx),
                    key: format!("{} panics", model.kind_name()),
                    summary: format!("{}: number_arrivals panicked during the window scan", model),
                    replay: replay_text("C10", "window", &model, &stream, "library call panics", &format!("seed={} model={} stream={}", sh.root, k, sidx)),
                });
                return;
            }
            Some(Some((i, j, allowed))) => {
                acc.report(Report {
                    order: (k, 10 + sidx),
                    key: format!("{} undercounts", model.kind_name()),
                    summary: format!(
                        "{}: the admissible stream has {} events in [{}, {}] (length {}) but number_arrivals says {}",
                        model, j - i + 1, ev[i], ev[j], ev[j] - ev[i] + 1, allowed
                    ),
                    replay: replay_text(
                        "C10",
                        "window",
                        &model,
                        &stream,
                        &format!("from={} to={} events={} allowed={}", ev[i], ev[j], j - i + 1, allowed),
                        &format!("seed={} model={} stream={}", sh.root, k, sidx),
                    ),
                });
                break;
            }
            Some(None) => {}
        }
        // attained (Periodic, Sporadic): the dense stream has exactly η(δ) events in a window of
        // every length δ, starting where the first event is released
        if exact && force_dense && !ev.is_empty() {
            let start = ev[0];
            let last = *ev.last().unwrap();
            let mut idx = 0usize;
            let mut ok = true;
            let mut at = 0u64;
            for delta in 1..=(last - start) {
                while idx < ev.len() && ev[idx] < start + delta {
                    idx += 1;
                }
                if idx != eta[delta as usize] {
                    ok = false;
                    at = delta;
                    break;
                }
            }
            if ok {
                acc.counters.inc("probe.bound_attained_by_dense_stream");
            } else {
                acc.report(Report {
                    order: (k, 5),
                    key: format!("{} not attained", model.kind_name()),
                    summary: format!(
                        "{}: the maximal-rate stream has {} events in [{}, {}) but number_arrivals({}) = {}",
                        model, idx, start, start + at, at, eta[at as usize]
                    ),
                    replay: replay_text("C10", "attain", &model, &stream, &format!("delta={}", at), &format!("seed={} model={}", sh.root, k)),
                });
            }
        }
        acc.sample((k, sidx), || {
            let mut j = Json::obj();
            j.set("model", Json::str(model.to_string()));
            j.set("stream", Json::str(stream.to_string()));
            j.set("events", Json::Int(ev.len() as i128));
            j
        });
    }
}

pub fn run_c10(opt: &Options) -> i32 {
    let t0 = std::time::Instant::now();
    let (models, per) = if opt.thorough() {
        (opt.scaled(6_000_000), 24u64)
    } else {
        (opt.scaled(200_000), 8u64)
    };
    let fps = Distinct::new(30);
    let nontrivial = Distinct::new(30);
    let sh = StreamShared {
        root: opt.seed,
        streams_per_model: per,
        fps: &fps,
        nontrivial: &nontrivial,
    };
    let fin = |mut acc: Acc| -> i32 {
        let wall = t0.elapsed().as_secs_f64();
        let mut cov = Json::obj();
        cov.set("evaluations", Json::Int(acc.counters.get("runs") as i128));
        cov.set("distinct_nontrivial", Json::Int(nontrivial.count() as i128));
        cov.set(
            "rule",
            Json::str(
                "one evaluation = one event stream generated by the documented process of one arrival \
                 model (periodic with phase; sporadic arrivals with gap stretching and per-event \
                 release jitter incl. reordering; delta-min constrained sequences with bursts; \
                 per-event delays for Propagated / clone_with_jitter, nested; merged component \
                 streams), checked in every window [t_i, t_j] against number_arrivals; the dense \
                 stream of Periodic/Sporadic must attain the bound. distinct = distinct (model, event \
                 vector) fingerprints; non-trivial = at least three events",
            ),
        );
        cov.set("distinct_streams", Json::Int(fps.count() as i128));
        cov.set("models", Json::Int(acc.counters.get("models") as i128));
        cov.set("simulated_time_ticks", Json::Int(acc.counters.get("sim_ticks") as i128));
        cov.set(
            "components",
            components_json(
                &["response_time_analysis::arrival::{Periodic, Sporadic, Curve, ExtrapolatingCurve, ArrivalCurvePrefix, Propagated, Never, Vec<_>, sum_of, Rc<_>}::number_arrivals and clone_with_jitter (real)"],
                &["event sources for every documented process, delay injector, stream merger (stubs, sim/src/streams.rs)"],
            ),
        );
        let out = finish(
            opt,
            &mut acc,
            wall,
            cov,
            &[
                "admissible = the process each model documents (not the library's curve): exact period; arrivals >= T apart each released within J; delta-min constraints for the recorded n only; each event of an admissible input delayed by <= the added jitter; superposition",
                "the clause 'jitter a then b equals a+b' and sub-additivity are pointwise comparisons evaluated along the scan (ride-along)",
            ],
            &|r: &Report| minimise_report(r),
        );
        out.exit_code
    };
    run_parallel_then(models, opt.jobs, 60, |k, acc, note| c10_item(&sh, k, acc, note), &fin)
}

fn get_line(text: &str, head: &str) -> Option<String> {
    text.lines()
        .find_map(|l| l.trim().strip_prefix(head).map(|r| r.trim().to_string()))
}

fn minimise_report(r: &Report) -> (String, String) {
    let kind = get_line(&r.replay, "kind ").unwrap_or_default();
    if kind != "window" {
        return (r.replay.clone(), r.summary.clone());
    }
    let prop = get_line(&r.replay, "property ").unwrap_or_else(|| "C10".into());
    let model = match get_line(&r.replay, "model ").and_then(|m| parse_arrival(&m).ok()) {
        Some(m) => m,
        None => return (r.replay.clone(), r.summary.clone()),
    };
    let stream = match get_line(&r.replay, "stream ").and_then(|m| parse_stream(&m).ok()) {
        Some(m) => m,
        None => return (r.replay.clone(), r.summary.clone()),
    };
    let m2 = model.clone();
    let fails = move |s: &Stream| -> bool {
        let ev = s.events();
        let m3 = m2.clone();
        matches!(guarded(move || {
            let ab = m3.build();
            first_overfull_window(&*ab, &ev)
        }), Some(Some(_)))
    };
    let small = minimise_stream(&model, &stream, &fails);
    let ev = small.events();
    let m4 = model.clone();
    let ev2 = ev.clone();
    let detail = match guarded(move || {
        let ab = m4.build();
        first_overfull_window(&*ab, &ev2)
    }) {
        Some(Some((i, j, allowed))) => format!("from={} to={} events={} allowed={}", ev[i], ev[j], j - i + 1, allowed),
        _ => return (r.replay.clone(), r.summary.clone()),
    };
    let note = get_line(&r.replay, "note ").unwrap_or_default();
    (
        replay_text(&prop, "window", &model, &small, &detail, &format!("{} (minimised from {} events)", note, stream.events().len())),
        format!("{}: {}", model, detail),
    )
}

/// Replay of an `engine stream` file (C10 kinds; C12/C13 kinds are dispatched from their modules).
pub fn replay_stream(path: &str, text: &str) -> i32 {
    let prop = get_line(text, "property ").unwrap_or_else(|| "C10".into());
    let kind = get_line(text, "kind ").unwrap_or_default();
    let model = match get_line(text, "model ").ok_or("no model".to_string()).and_then(|m| parse_arrival(&m)) {
        Ok(m) => m,
        Err(e) => {
            eprintln!("HARNESS-ERROR: {}", e);
            return 2;
        }
    };
    let expect = get_line(text, "expect ").unwrap_or_default();
    let viol = |msg: String| -> i32 {
        println!("violation: {}", msg);
        println!("VIOLATION property={} replay={}", prop, path);
        1
    };
    match kind.as_str() {
        "order" => {
            let stream = match get_line(text, "stream ").ok_or("no stream".to_string()).and_then(|m| parse_stream(&m)) {
                Ok(m) => m,
                Err(e) => {
                    eprintln!("HARNESS-ERROR: {}", e);
                    return 2;
                }
            };
            if let Err(e) = stream_admissible(&model, &stream) {
                eprintln!("HARNESS-ERROR: stream in replay file is not admissible for {}: {}", model, e);
                return 2;
            }
            let order = match expect.strip_prefix("queries=").and_then(parse_order) {
                Some(o) => o,
                None => {
                    eprintln!("HARNESS-ERROR: bad query order");
                    return 2;
                }
            };
            let ev = stream.events();
            let m = model.clone();
            let evc = ev.clone();
            match guarded(move || {
                let ab = m.build();
                first_overfull_in_order(&*ab, &evc, &order)
            }) {
                None => viol(format!("{}: number_arrivals panicked", model)),
                Some(Some((i, j, allowed))) => viol(format!(
                    "{}: {} events in [{}, {}] but number_arrivals({}) = {}",
                    model, j - i + 1, ev[i], ev[j], ev[j] - ev[i] + 1, allowed
                )),
                Some(None) => {
                    println!("replay: no violation");
                    0
                }
            }
        }
        "window" | "attain" => {
            let stream = match get_line(text, "stream ").ok_or("no stream".to_string()).and_then(|m| parse_stream(&m)) {
                Ok(m) => m,
                Err(e) => {
                    eprintln!("HARNESS-ERROR: {}", e);
                    return 2;
                }
            };
            if let Err(e) = stream_admissible(&model, &stream) {
                eprintln!("HARNESS-ERROR: stream in replay file is not admissible for {}: {}", model, e);
                return 2;
            }
            let ev = stream.events();
            let m = model.clone();
            let evc = ev.clone();
            if kind == "window" {
                match guarded(move || {
                    let ab = m.build();
                    first_overfull_window(&*ab, &evc)
                }) {
                    None => viol(format!("{}: number_arrivals panicked", model)),
                    Some(Some((i, j, allowed))) => viol(format!(
                        "{}: {} events in [{}, {}] but number_arrivals({}) = {}",
                        model, j - i + 1, ev[i], ev[j], ev[j] - ev[i] + 1, allowed
                    )),
                    Some(None) => {
                        println!("replay: no violation");
                        0
                    }
                }
            } else {
                if ev.is_empty() {
                    println!("replay: no violation");
                    return 0;
                }
                let start = ev[0];
                let last = *ev.last().unwrap();
                let res = guarded(move || {
                    let ab = m.build();
                    let mut idx = 0usize;
                    for delta in 1..=(last - start) {
                        while idx < evc.len() && evc[idx] < start + delta {
                            idx += 1;
                        }
                        let n = ab.number_arrivals(d(delta));
                        if idx != n {
                            return Some((delta, idx, n));
                        }
                    }
                    None
                });
                match res {
                    None => viol(format!("{}: number_arrivals panicked", model)),
                    Some(Some((delta, idx, n))) => viol(format!(
                        "{}: maximal-rate stream has {} events in a window of length {} but number_arrivals = {}",
                        model, idx, delta, n
                    )),
                    Some(None) => {
                        println!("replay: no violation");
                        0
                    }
                }
            }
        }
        "shape" => {
            let field = |name: &str| -> Option<u64> {
                expect
                    .split_whitespace()
                    .find_map(|t| t.strip_prefix(&format!("{}=", name)).and_then(|v| v.parse().ok()))
            };
            let ja = field("ja").unwrap_or(0);
            let jb = field("jb").unwrap_or(0);
            let scan = field("scan").unwrap_or(300);
            let m = model.clone();
            let res = guarded(move || {
                let ab = m.build();
                let two = ab.clone_with_jitter(d(ja)).clone_with_jitter(d(jb));
                let one = ab.clone_with_jitter(d(ja + jb));
                // same order of queries as the run (caching models are history-dependent)
                let eta: Vec<usize> = (0..=scan).map(|x| ab.number_arrivals(d(x))).collect();
                let e2: Vec<usize> = (0..=scan).map(|x| two.number_arrivals(d(x))).collect();
                let e1: Vec<usize> = (0..=scan).map(|x| one.number_arrivals(d(x))).collect();
                if eta[0] != 0 {
                    return Some("number_arrivals(0) != 0".to_string());
                }
                for x in 1..eta.len() {
                    if eta[x] < eta[x - 1] {
                        return Some(format!("number_arrivals decreases at {}", x));
                    }
                }
                for x in 0..eta.len() {
                    if e2[x] != e1[x] {
                        return Some(format!("jitter {} then {} differs from {} at delta={}", ja, jb, ja + jb, x));
                    }
                }
                if let (Some(a), Some(b)) = (field("a"), field("b")) {
                    if ab.number_arrivals(d(a + b)) > ab.number_arrivals(d(a)) + ab.number_arrivals(d(b)) {
                        return Some(format!("not sub-additive at {} + {}", a, b));
                    }
                }
                None
            });
            match res {
                None => viol(format!("{}: library call panicked", model)),
                Some(Some(msg)) => viol(format!("{}: {}", model, msg)),
                Some(None) => {
                    println!("replay: no violation");
                    0
                }
            }
        }
        other => {
            eprintln!("HARNESS-ERROR: unknown stream replay kind '{}'", other);
            2
        }
    }
}
