//! C01 / C02 / C03 (safety of the FP / EDF / FIFO analyses under every legal
//! schedule) and C18 (tightness of FP-P, FP-NP, FIFO): campaign, violation
//! reports, replay and minimisation.

use crate::analysis::{analyse_all, Outcome};
use crate::gen::{random_taskset, ArrSwarm, TaskSetSwarm};
use crate::json::Json;
use crate::rng::Rng;
use crate::stats::{run_parallel_then, Acc, Distinct, Report};
use crate::uni::{JobSpec, TaskSet, TieRule, Variant, Violation, EDF_VARIANTS, FP_VARIANTS};
use crate::unisched::{
    bounds_of, gen_schedule, prepare, run_scenario, scenario_legal, Prep, Scenario,
};

pub struct UniBudget {
    pub inputs: u64,
    /// random schedules per (task set, variant), on top of the structured ones
    pub schedules_per_variant: u64,
    /// EDF: anchored worst-case candidates per task
    pub anchored_per_task: u64,
    /// thorough tier: a quarter of the inputs uses larger task sets / parameters
    pub wide: bool,
    /// one input in this many is a "late coincidence" task set (0: none)
    pub coincidence_one_in: u64,
}

pub fn variants_of(prop: &str) -> &'static [Variant] {
    match prop {
        "C01" => &FP_VARIANTS,
        "C02" => &EDF_VARIANTS,
        "C03" => &[Variant::Fifo],
        _ => &[],
    }
}

pub fn finding_key(sc: &Scenario, v: &Violation) -> String {
    format!(
        "{} tua={} {}",
        sc.variant,
        sc.ts.tasks[v.task].arr.kind_name(),
        if v.bound == 0 { "bound=0" } else { "bound>0" }
    )
}

pub fn violation_summary(sc: &Scenario, v: &Violation) -> String {
    format!(
        "{}: task {} (arr={} wcet={}) job {} released at {} has bound {} but {} {} time units",
        sc.variant,
        v.task,
        sc.ts.tasks[v.task].arr,
        sc.ts.tasks[v.task].wcet,
        v.job_k,
        v.release,
        v.bound,
        if v.completed {
            "completed after"
        } else {
            "is still incomplete after"
        },
        v.observed
    )
}

pub fn replay_text(prop: &str, sc: &Scenario, v: &Violation, provenance: &str) -> String {
    let mut out = String::new();
    out.push_str("rtasim-replay 1\n");
    out.push_str(&format!("property {}\n", prop));
    out.push_str("engine uni\n");
    out.push_str(&sc.to_text());
    out.push_str(&format!(
        "expect task={} job={} release={} bound={} observed={} completed={}\n",
        v.task, v.job_k, v.release, v.bound, v.observed, v.completed
    ));
    out.push_str(&format!("note {}\n", provenance));
    out
}

fn outcomes_to_bounds(o: &[Outcome]) -> Vec<Option<u64>> {
    o.iter().map(|x| x.bound()).collect()
}

/// Check one explicit scenario against the real analysis.  `Err` = the scenario is not legal
/// (harness error when it comes from the generator).
pub fn check_scenario(sc: &Scenario) -> Result<Option<Violation>, String> {
    scenario_legal(sc)?;
    let outcomes = bounds_of(sc);
    let bounds = outcomes_to_bounds(&outcomes);
    let res = run_scenario(sc, &bounds, false);
    Ok(res.violation)
}

pub fn sample_json(sc: &Scenario, bounds: &[Outcome], max_resp: &[u64], pattern: &str) -> Json {
    let mut j = Json::obj();
    j.set("variant", Json::str(sc.variant.name()));
    j.set("pattern", Json::str(pattern));
    j.set(
        "tasks",
        Json::Arr(
            sc.ts
                .tasks
                .iter()
                .map(|t| Json::str(t.to_string()))
                .collect(),
        ),
    );
    j.set("limit", Json::Int(sc.ts.limit as i128));
    j.set("jobs", Json::Int(sc.jobs.len() as i128));
    let first: Vec<String> = sc
        .jobs
        .iter()
        .take(12)
        .map(|jb| format!("task{}@{}:{:?}", jb.task, jb.release, jb.chunks))
        .collect();
    j.set("first_jobs", Json::arr_str(&first));
    j.set(
        "bounds",
        Json::Arr(
            bounds
                .iter()
                .map(|b| match b {
                    Outcome::Ok(r) => Json::Int(*r as i128),
                    Outcome::Err => Json::str("Err"),
                    Outcome::Panic => Json::str("panic"),
                })
                .collect(),
        ),
    );
    j.set(
        "max_response_observed",
        Json::Arr(max_resp.iter().map(|r| Json::Int(*r as i128)).collect()),
    );
    j
}

pub fn choose_limit(rng: &mut Rng, l_obs: Option<u64>) -> u64 {
    match l_obs {
        None => *rng.pick(&[40u64, 120, 400, 1200]),
        Some(l) => match rng.below(8) {
            0 => l + rng.below(4),          // at or just above the synchronous busy window
            1 => l + rng.range(4, 40),
            2 => 2 * l + 10,
            3 => (l / 2).max(2),            // too small: analyses of low-priority tasks must say Err
            4 | 5 => 3000.max(2 * l),
            _ => {
                if l <= 1500 {
                    20_000
                } else {
                    3 * l
                }
            }
        },
    }
}

pub struct UniShared<'a> {
    pub prop: &'static str,
    pub root_seed: u64,
    pub budget: &'a UniBudget,
    pub all_fp: &'a Distinct,
    pub nontrivial_fp: &'a Distinct,
    pub inputs_fp: &'a Distinct,
}

/// One input (task set) with all its schedules.
pub fn uni_item(sh: &UniShared, k: u64, acc: &mut Acc, note: &dyn Fn(&str)) {
    let mut rng = Rng::new(Rng::run_seed(sh.root_seed, sh.prop, k));
    let mut in_rng = rng.split("input");
    // one input in `coincidence_one_in` is a long-busy-window task set whose decisive offset
    // sits deep inside the search space
    let one_in = std::env::var("RTASIM_DEBUG_COINCIDENCE_ONE_IN")
        .ok()
        .and_then(|v| v.parse().ok())
        .unwrap_or(sh.budget.coincidence_one_in);
    let coincidence = one_in > 0 && rng.split("coincidence").chance(1, one_in);
    let mut ts = if coincidence {
        acc.counters.inc("inputs_late_coincidence");
        crate::gen::coincidence_taskset(&mut in_rng)
    } else {
        let sw = TaskSetSwarm::random_wide(&mut in_rng, sh.budget.wide);
        random_taskset(&mut in_rng, &sw)
    };
    let repr = rng.split("repr").below(6) as u8;
    // The divergence limit is drawn once the harness knows the synchronous busy window it
    // observed itself: huge limits are only combined with busy windows the simulation can
    // cover (a 10^5-tick busy window costs seconds of analysis time and cannot be simulated).
    let tp = std::time::Instant::now();
    let pre_prep = prepare(&ts);
    acc.counters.add("time_us.prepare", tp.elapsed().as_micros() as u64);
    if let Some(p) = &pre_prep {
        ts.limit = choose_limit(&mut rng.split("limit"), p.l_obs);
    }
    let desc = format!(
        "{} input#{} limit={} tasks=[{}]",
        sh.prop,
        k,
        ts.limit,
        ts.tasks
            .iter()
            .map(|t| t.to_string())
            .collect::<Vec<_>>()
            .join(" ; ")
    );
    note(&desc);
    acc.counters.inc("inputs");
    let prep = match pre_prep {
        Some(p) => p,
        None => {
            acc.counters.inc("probe.model_panics");
            return;
        }
    };
    sh.inputs_fp
        .insert(crate::rng::hash_str(&format!("{:?}", ts)));
    if prep.l_obs.is_none() {
        acc.counters.inc("probe.overloaded_inputs");
    }
    for (vi, variant) in variants_of(sh.prop).iter().enumerate() {
        let ta = std::time::Instant::now();
        let outcomes = analyse_all(&ts, *variant, repr);
        acc.counters.add("time_us.analysis", ta.elapsed().as_micros() as u64);
        let bounds = outcomes_to_bounds(&outcomes);
        for o in &outcomes {
            match o {
                Outcome::Ok(_) => acc.counters.inc("probe.analysis_ok"),
                Outcome::Err => acc.counters.inc("probe.analysis_err"),
                Outcome::Panic => acc.counters.inc("probe.analysis_panics"),
            }
        }
        if bounds.iter().all(|b| b.is_none()) {
            // no claim to check for this variant
            acc.counters.inc("probe.variant_without_claim");
            continue;
        }
        let mut attained = vec![false; ts.tasks.len()];
        let mut best_seen = vec![0u64; ts.tasks.len()];
        // structured part: the constructive worst-case candidate for every task with a claim
        // (plus, for EDF, a few anchored variants); then the random part
        let mut directives: Vec<Option<crate::unisched::Directive>> = Vec::new();
        for i in 0..ts.tasks.len() {
            if bounds[i].is_none() && *variant != Variant::Fifo {
                continue;
            }
            directives.push(Some(crate::unisched::Directive {
                victim: i,
                anchor: None,
            }));
            if variant.policy() == crate::uni::Policy::Edf {
                let cands = crate::unisched::anchor_candidates(&ts, &prep, variant.policy(), i);
                let mut arng = rng.split(&format!("anchors/{}/{}", vi, i));
                for _ in 0..sh.budget.anchored_per_task.min(cands.len() as u64) {
                    directives.push(Some(crate::unisched::Directive {
                        victim: i,
                        anchor: Some(*arng.pick(&cands)),
                    }));
                }
            }
        }
        // (long-busy-window inputs: thousands of jobs per schedule, a quarter of the random ones)
        let n_random = if coincidence {
            sh.budget.schedules_per_variant / 4
        } else {
            sh.budget.schedules_per_variant
        };
        for _ in 0..n_random {
            directives.push(None);
        }
        for (s, dir) in directives.iter().enumerate() {
            let s = s as u64;
            let mut srng = rng.split(&format!("sched/{}/{}", vi, s));
            let tg = std::time::Instant::now();
            let so = gen_schedule(&ts, &prep, *variant, repr, &mut srng, &mut acc.counters, *dir);
            acc.counters.add("time_us.gen_schedule", tg.elapsed().as_micros() as u64);
            run_one(sh, k, vi as u64 * 1_000_000 + s, &so.sc, &prep, &outcomes, &bounds, so.pattern, acc, &mut attained, &mut best_seen);
        }
        if std::env::var("RTASIM_DEBUG_ATTAIN").is_ok() {
            for i in 0..ts.tasks.len() {
                if bounds[i].is_some() && !attained[i] {
                    eprintln!(
                        "NOT-ATTAINED {} task {} bound {:?} best {} l_obs {:?} limit {} :: {}",
                        variant,
                        i,
                        bounds[i],
                        best_seen[i],
                        prep.l_obs,
                        ts.limit,
                        ts.tasks.iter().map(|t| t.to_string()).collect::<Vec<_>>().join(" ; ")
                    );
                }
            }
        }
        if *variant == Variant::Fifo {
            // one bound for the whole task set: attained if any task attains it
            if bounds[0].is_some() {
                acc.counters.inc("probe.analysed_entities");
                if attained.iter().any(|a| *a) {
                    acc.counters.inc("probe.entities_bound_attained");
                }
            }
        } else {
            for (i, a) in attained.iter().enumerate() {
                if bounds[i].is_some() {
                    acc.counters.inc("probe.analysed_entities");
                    if *a {
                        acc.counters.inc("probe.entities_bound_attained");
                    }
                }
            }
        }
    }
}

#[allow(clippy::too_many_arguments)]
fn run_one(
    sh: &UniShared,
    k: u64,
    sidx: u64,
    sc: &Scenario,
    prep: &Prep,
    outcomes: &[Outcome],
    bounds: &[Option<u64>],
    pattern: &'static str,
    acc: &mut Acc,
    attained: &mut [bool],
    best_seen: &mut [u64],
) {
    // self-check of the generator: every release sequence admissible, every job legal
    let tv = std::time::Instant::now();
    {
        let n = sc.ts.tasks.len();
        let mut per_task: Vec<Vec<u64>> = vec![Vec::new(); n];
        for j in &sc.jobs {
            per_task[j.task].push(j.release);
            if let Err(e) =
                crate::unisched::chunks_legal(&sc.ts.tasks[j.task], sc.variant.preempt(), &j.chunks)
            {
                eprintln!("HARNESS-ERROR: generator produced an illegal job: {}", e);
                std::process::exit(2);
            }
        }
        for i in 0..n {
            if crate::unisched::is_shifted_dense_prefix(&per_task[i], &prep.dense[i]) {
                continue;
            }
            if let Err(e) = prep.adm[i].validate(&per_task[i]) {
                eprintln!(
                    "HARNESS-ERROR: generator produced an inadmissible release sequence for task \
                     {} ({}): {}",
                    i, sc.ts.tasks[i].arr, e
                );
                std::process::exit(2);
            }
        }
    }
    acc.counters.add("time_us.validate", tv.elapsed().as_micros() as u64);
    let tsim = std::time::Instant::now();
    let res = run_scenario(sc, bounds, false);
    acc.counters.add("time_us.simulate", tsim.elapsed().as_micros() as u64);
    acc.counters.inc("runs");
    acc.counters.add("sim_ticks", res.end_time);
    acc.counters.add("jobs_simulated", sc.jobs.len() as u64);
    match pattern {
        "sync" => acc.counters.inc("pattern.sync"),
        "phases" => acc.counters.inc("pattern.phases"),
        "blocker" => acc.counters.inc("pattern.blocker"),
        "anchored" => acc.counters.inc("pattern.anchored"),
        "delays" => acc.counters.inc("pattern.delays"),
        "stretch" => acc.counters.inc("pattern.stretch"),
        "witness" => acc.counters.inc("pattern.witness"),
        _ => acc.counters.inc("pattern.mixed"),
    }
    let p = &res.probes;
    acc.counters.add("probe.tie_at_decision", p.ties);
    acc.counters
        .add("fault.tie_resolved_against_analysed", p.ties_against_victim);
    acc.counters.add("probe.np_blocking_occurred", p.np_blocking);
    acc.counters.add("probe.preemptions", p.preemptions);
    acc.counters.add("probe.deadline_tie", p.deadline_ties);
    if p.busy_windows > 1 {
        acc.counters.inc("probe.runs_with_several_busy_windows");
    }
    sh.all_fp.insert(res.fingerprint);
    acc.digest_add(res.fingerprint ^ res.max_resp.iter().fold(0u64, |a, r| a.wrapping_mul(31).wrapping_add(*r)));
    let mut nontrivial = false;
    for i in 0..sc.ts.tasks.len() {
        best_seen[i] = best_seen[i].max(res.max_resp[i]);
        if let Some(b) = bounds[i] {
            if res.delayed_by_other[i] {
                nontrivial = true;
            }
            if res.max_resp[i] == b && res.completed[i] > 0 {
                acc.counters.inc("probe.bound_attained");
                attained[i] = true;
                if let Some((_, _, off)) = res.worst[i] {
                    if off > 0 {
                        acc.counters.inc("probe.worst_offset_gt_0");
                    }
                }
            }
        }
    }
    if nontrivial {
        acc.counters.inc("runs_nontrivial");
        sh.nontrivial_fp.insert(res.fingerprint);
    }
    acc.sample((k, sidx), || {
        sample_json(sc, outcomes, &res.max_resp, pattern)
    });
    if let Some(v) = &res.violation {
        let key = finding_key(sc, v);
        acc.report(Report {
            order: (k, sidx),
            key,
            summary: violation_summary(sc, v),
            replay: replay_text(
                sh.prop,
                sc,
                v,
                &format!("seed={} input={} schedule={}", sh.root_seed, k, sidx),
            ),
        });
    }
}

// ---------------------------------------------------------------------------
// minimisation

fn still_fails(sc: &Scenario, key: &str) -> Option<Violation> {
    match check_scenario(sc) {
        Ok(Some(v)) if finding_key(sc, &v) == key => Some(v),
        _ => None,
    }
}

fn drop_task(sc: &Scenario, t: usize) -> Scenario {
    let mut out = sc.clone();
    out.ts.tasks.remove(t);
    out.jobs = sc
        .jobs
        .iter()
        .filter(|j| j.task != t)
        .map(|j| JobSpec {
            task: if j.task > t { j.task - 1 } else { j.task },
            release: j.release,
            chunks: j.chunks.clone(),
        })
        .collect();
    out.tie = match &sc.tie {
        TieRule::VictimLoses { victim, salt } => {
            if *victim == t {
                TieRule::Hashed { salt: *salt }
            } else {
                TieRule::VictimLoses {
                    victim: if *victim > t { victim - 1 } else { *victim },
                    salt: *salt,
                }
            }
        }
        other => other.clone(),
    };
    out
}

/// Greedy delta debugging on the explicit scenario; every candidate is re-validated for
/// legality and must still violate with the same finding key.
pub fn minimise(sc: &Scenario, key: &str, budget: usize) -> (Scenario, Violation) {
    let mut best = sc.clone();
    let mut viol = match still_fails(&best, key) {
        Some(v) => v,
        None => {
            // cannot even reproduce: return as is with a dummy (caller re-checks)
            return (
                best,
                Violation {
                    task: 0,
                    job_k: 0,
                    release: 0,
                    bound: 0,
                    observed: 0,
                    completed: false,
                },
            );
        }
    };
    let mut tries = 0usize;
    let mut progress = true;
    while progress && tries < budget {
        progress = false;
        // 1. drop whole tasks other than the violating one
        let mut t = 0;
        while t < best.ts.tasks.len() && tries < budget {
            if t != viol.task && best.ts.tasks.len() > 1 {
                tries += 1;
                let cand = drop_task(&best, t);
                if let Some(v) = still_fails(&cand, key) {
                    best = cand;
                    viol = v;
                    progress = true;
                    continue;
                }
            }
            t += 1;
        }
        // 2. cut everything released after the violating instant
        {
            let cut = viol.release + viol.observed;
            let cand_jobs: Vec<JobSpec> = best
                .jobs
                .iter()
                .filter(|j| j.release <= cut)
                .cloned()
                .collect();
            if cand_jobs.len() < best.jobs.len() {
                tries += 1;
                let mut cand = best.clone();
                cand.jobs = cand_jobs;
                if let Some(v) = still_fails(&cand, key) {
                    best = cand;
                    viol = v;
                    progress = true;
                }
            }
        }
        // 3. drop blocks of jobs (ddmin style), then single jobs
        let mut block = (best.jobs.len() / 2).max(1);
        while block >= 1 && tries < budget {
            let mut start = 0;
            while start < best.jobs.len() && tries < budget {
                let end = (start + block).min(best.jobs.len());
                let mut cand = best.clone();
                cand.jobs.drain(start..end);
                tries += 1;
                if let Some(v) = still_fails(&cand, key) {
                    best = cand;
                    viol = v;
                    progress = true;
                } else {
                    start = end;
                }
            }
            if block == 1 {
                break;
            }
            block /= 2;
        }
        // 4. simplest tie rule
        for rule in [TieRule::First, TieRule::Last] {
            if best.tie != rule && tries < budget {
                tries += 1;
                let mut cand = best.clone();
                cand.tie = rule;
                if let Some(v) = still_fails(&cand, key) {
                    best = cand;
                    viol = v;
                    progress = true;
                    break;
                }
            }
        }
        // 5. shift time so that the first release is at 0
        if let Some(first) = best.jobs.first().map(|j| j.release) {
            if first > 0 && tries < budget {
                tries += 1;
                let mut cand = best.clone();
                for j in cand.jobs.iter_mut() {
                    j.release -= first;
                }
                if let Some(v) = still_fails(&cand, key) {
                    best = cand;
                    viol = v;
                    progress = true;
                }
            }
        }
        // 6. quantum off
        if best.quantum != 0 && tries < budget {
            tries += 1;
            let mut cand = best.clone();
            cand.quantum = 0;
            if let Some(v) = still_fails(&cand, key) {
                best = cand;
                viol = v;
                progress = true;
            }
        }
    }
    // make the tie decisions explicit (script) so that the replay file is PRNG-free
    {
        let outcomes = bounds_of(&best);
        let bounds = outcomes_to_bounds(&outcomes);
        let res = run_scenario(&best, &bounds, true);
        let mut cand = best.clone();
        cand.tie = TieRule::Script(res.tie_log.clone());
        let total: u64 = cand.jobs.iter().map(|j| j.cost()).sum();
        cand.time_cap = cand.jobs.last().map(|j| j.release).unwrap_or(0) + total + 2;
        if let Some(v) = still_fails(&cand, key) {
            best = cand;
            viol = v;
        }
    }
    (best, viol)
}

// ---------------------------------------------------------------------------
// C18: tightness through the constructive worst-case adversary

/// Witness run for task `i` under `variant` (FpP / FpNp / Fifo): returns the largest response
/// time of task `i` (for FIFO: of any task) in the schedule that the theory says attains the
/// bound, or `None` if the curve is not exact/realisable on the relevant range.
pub fn witness_max_response(
    ts: &TaskSet,
    prep: &Prep,
    variant: Variant,
    i: usize,
) -> Option<(u64, Scenario)> {
    let n = ts.tasks.len();
    let l = prep.l_obs?;
    let horizon = (2 * l + 40).min(crate::unisched::MAX_REL_HORIZON);
    if l + 64 > horizon {
        return None; // the busy window does not fit the simulated horizon: cannot decide
    }
    // The maximal-rate release pattern comes from the process each model *documents* (period;
    // min inter-arrival + release jitter; the recorded delta-min prefix), not from the library's
    // curve: a curve that over-approximates its own process (e.g. one extra job at a window
    // boundary, a not-tightest extrapolation) then shows as a bound no schedule attains.
    let mut dense: Vec<Vec<u64>> = Vec::with_capacity(n);
    for t in 0..n {
        let dd = doc_dense(&ts.tasks[t].arr, horizon, ts.kmax())?;
        if dd.len() >= ts.kmax() && dd.last().copied().unwrap_or(0) < l + 12 {
            return None; // job cap reached inside the busy window: cannot decide
        }
        // the documented pattern must be admissible for the library's curve (otherwise the
        // library undercounts its own process: C10's business, no claim here)
        if prep.adm[t].validate(&dd).is_err() {
            return None;
        }
        dense.push(dd);
    }
    let mut jobs: Vec<JobSpec> = Vec::new();
    let mut shift = 0u64;
    let include: Vec<usize> = match variant {
        Variant::Fifo => (0..n).collect(),
        _ => (0..n)
            .filter(|j| *j == i || ts.tasks[*j].prio >= ts.tasks[i].prio)
            .collect(),
    };
    if variant == Variant::FpNp {
        // the lower-priority task with the largest WCET starts one tick earlier
        let blocker = (0..n)
            .filter(|j| ts.tasks[*j].prio < ts.tasks[i].prio && !dense[*j].is_empty())
            .max_by_key(|j| (ts.tasks[*j].wcet, *j));
        if let Some(b) = blocker {
            // only a blocker that actually blocks (WCET ≥ 2) needs the shift
            jobs.push(JobSpec {
                task: b,
                release: 0,
                chunks: vec![ts.tasks[b].wcet as u32],
            });
            shift = 1;
        }
    }
    // the busy window may be longer than the synchronous one because of blocking; release
    // densely well beyond it
    for t in include {
        for r in dense[t].iter() {
            if *r > horizon {
                break;
            }
            jobs.push(JobSpec {
                task: t,
                release: *r + shift,
                chunks: vec![ts.tasks[t].wcet as u32],
            });
        }
    }
    jobs.sort_by(|a, b| (a.release, a.task).cmp(&(b.release, b.task)));
    let total: u64 = jobs.iter().map(|j| j.cost()).sum();
    let last_rel = jobs.last().map(|j| j.release).unwrap_or(0);
    let sc = Scenario {
        variant,
        ts: ts.clone(),
        repr: 0,
        jobs,
        tie: TieRule::VictimLoses { victim: i, salt: 0 },
        quantum: 1,
        time_cap: last_rel + total + 2,
    };
    let none: Vec<Option<u64>> = vec![None; n];
    let res = run_scenario(&sc, &none, false);
    Some((res.max_resp[i], sc))
}

/// The maximal-rate release pattern of the process the model documents (only for the models
/// C18 speaks about: periodic, sporadic with release jitter, auto-extrapolating delta-min curves).
pub fn doc_dense(arr: &crate::desc::ArrDesc, horizon: u64, max_jobs: usize) -> Option<Vec<u64>> {
    use crate::desc::ArrDesc;
    let mut out = Vec::new();
    match arr {
        ArrDesc::Periodic(t) => {
            let mut x = 0u64;
            while x <= horizon && out.len() < max_jobs {
                out.push(x);
                x += *t;
            }
        }
        ArrDesc::Sporadic(t, j) => {
            // arrivals at k*T, the first ones released as late as the jitter allows so that they
            // bunch up with the punctual ones: release_k = max(k*T, J), shifted to start at 0
            let mut k = 0u64;
            loop {
                let r = (k * *t).saturating_sub(*j);
                if r > horizon || out.len() >= max_jobs {
                    break;
                }
                out.push(r);
                k += 1;
            }
        }
        ArrDesc::Extrap(prefix) => {
            // densest sequence that respects the recorded delta-min prefix (and nothing else)
            while out.len() < max_jobs {
                let n = out.len();
                let mut lb = 0u64;
                for k in 1..=prefix.len().min(n) {
                    lb = lb.max(out[n - k] + prefix[k - 1]);
                }
                if lb > horizon {
                    break;
                }
                out.push(lb);
            }
        }
        _ => return None,
    }
    Some(out)
}

pub fn exact_swarm(rng: &mut Rng) -> TaskSetSwarm {
    let mut sw = TaskSetSwarm::random(rng);
    sw.arr = ArrSwarm::exact_only();
    sw
}

// ---------------------------------------------------------------------------
// property drivers

use crate::harness::{components_json, finish, Options, REAL_STUB_UNI};

pub fn parse_uni_replay(text: &str) -> Result<Scenario, String> {
    Scenario::from_lines(text.lines())
}

fn header_value<'a>(text: &'a str, head: &str) -> Option<&'a str> {
    text.lines()
        .find_map(|l| l.trim().strip_prefix(head).map(|r| r.trim()))
}

pub fn run_uni_property(opt: &Options, prop: &'static str) -> i32 {
    let t0 = std::time::Instant::now();
    let budget = if opt.thorough() {
        UniBudget {
            inputs: opt.scaled(match prop {
                "C03" => 1_600_000,
                "C02" => 640_000,
                _ => 160_000,
            }),
            schedules_per_variant: match prop {
                "C03" => 120,
                _ => 80,
            },
            anchored_per_task: 12,
            wide: true,
            coincidence_one_in: match prop {
                "C03" => 15,
                _ => 150,
            },
        }
    } else {
        UniBudget {
            inputs: opt.scaled(match prop {
                "C03" => 150_000,
                "C02" => 60_000,
                _ => 24_000,
            }),
            schedules_per_variant: match prop {
                "C03" => 24,
                _ => 16,
            },
            anchored_per_task: 4,
            wide: false,
            coincidence_one_in: match prop {
                "C03" => 15,
                _ => 150,
            },
        }
    };
    let all_fp = Distinct::new(30);
    let nontrivial_fp = Distinct::new(30);
    let inputs_fp = Distinct::new(26);
    let sh = UniShared {
        prop,
        root_seed: opt.seed,
        budget: &budget,
        all_fp: &all_fp,
        nontrivial_fp: &nontrivial_fp,
        inputs_fp: &inputs_fp,
    };
    let fin = |mut acc: Acc| -> i32 {
        let wall = t0.elapsed().as_secs_f64();
        let mut cov = Json::obj();
        cov.set("evaluations", Json::Int(acc.counters.get("runs") as i128));
        cov.set("distinct_nontrivial", Json::Int(nontrivial_fp.count() as i128));
        cov.set(
            "rule",
            Json::str(
                "one evaluation = one simulated schedule (release times, execution times, \
                 non-preemptive structure, tie breaks) of one generated task set under one analysis \
                 variant, monitored against the bounds returned by the real analysis for every task. \
                 distinct = distinct 64-bit fingerprints of the kernel's decision/completion log \
                 (lower bound: bitmap of 2^30 bits); non-trivial = at least one job of a task with an \
                 Ok bound was delayed by another task's execution in that run",
            ),
        );
        cov.set("distinct_schedules", Json::Int(all_fp.count() as i128));
        cov.set("distinct_inputs", Json::Int(inputs_fp.count() as i128));
        cov.set("inputs", Json::Int(acc.counters.get("inputs") as i128));
        cov.set(
            "simulated_time_ticks",
            Json::Int(acc.counters.get("sim_ticks") as i128),
        );
        cov.set(
            "variants",
            Json::Arr(
                variants_of(prop)
                    .iter()
                    .map(|v| Json::str(v.name()))
                    .collect(),
            ),
        );
        cov.set(
            "components",
            components_json(REAL_STUB_UNI.0, REAL_STUB_UNI.1),
        );
        let prop_owned = prop.to_string();
        let out = finish(
            opt,
            &mut acc,
            wall,
            cov,
            &[
                "the kernel stub implements the scheduling model the property states (DESIGN.md 3.1-3.3)",
                "admissible release sequences are defined by the library's own number_arrivals (undercounting is C10's business)",
                "sampling, not proof: task sets of 1-6 tasks, periods <= 120, WCET <= 10, horizon <= 3000 ticks",
            ],
            &|r: &Report| {
                let sc = match parse_uni_replay(&r.replay) {
                    Ok(s) => s,
                    Err(e) => {
                        eprintln!("HARNESS-ERROR: own replay text does not parse: {}", e);
                        std::process::exit(2);
                    }
                };
                let (m, v) = minimise(&sc, &r.key, 600);
                let note = header_value(&r.replay, "note").unwrap_or("");
                (
                    replay_text(&prop_owned, &m, &v, &format!("{} (minimised from {} jobs / {} tasks)", note, sc.jobs.len(), sc.ts.tasks.len())),
                    violation_summary(&m, &v),
                )
            },
        );
        out.exit_code
    };
    run_parallel_then(budget.inputs, opt.jobs, 60, |k, acc, note| {
        uni_item(&sh, k, acc, note)
    }, &fin)
}

/// Replay of an `engine uni` file: exit 1 + VIOLATION line if the violation reproduces.
pub fn replay_uni(path: &str, text: &str) -> i32 {
    let prop = header_value(text, "property").unwrap_or("C01").to_string();
    let sc = match parse_uni_replay(text) {
        Ok(s) => s,
        Err(e) => {
            eprintln!("HARNESS-ERROR: cannot parse replay file: {}", e);
            return 2;
        }
    };
    match check_scenario(&sc) {
        Err(e) => {
            eprintln!("HARNESS-ERROR: replay scenario is not legal: {}", e);
            2
        }
        Ok(None) => {
            let b = bounds_of(&sc);
            println!("replay: no violation; bounds = {:?}", b);
            0
        }
        Ok(Some(v)) => {
            println!("violation: {}", violation_summary(&sc, &v));
            println!(
                "observed task={} job={} release={} bound={} observed={} completed={}",
                v.task, v.job_k, v.release, v.bound, v.observed, v.completed
            );
            println!("VIOLATION property={} replay={}", prop, path);
            1
        }
    }
}

// --- C18 -------------------------------------------------------------------

fn tight_replay_text(ts: &TaskSet, variant: Variant, task: usize, bound: u64, wit: u64, note: &str) -> String {
    let mut out = String::new();
    out.push_str("rtasim-replay 1\nproperty C18\nengine uni-tight\n");
    out.push_str(&format!("variant {}\n", variant));
    out.push_str(&format!("limit {}\n", ts.limit));
    for (i, t) in ts.tasks.iter().enumerate() {
        out.push_str(&format!("{}\n", crate::unisched::task_line(i, t)));
    }
    out.push_str(&format!("entity {}\n", task));
    out.push_str(&format!(
        "expect bound={} witness_max_response={} (the constructive worst-case schedule does not attain the bound)\n",
        bound, wit
    ));
    out.push_str(&format!("note {}\n", note));
    out
}

/// Returns Some((bound, witness)) if the analysed entity shows slack.
fn tight_check(ts: &TaskSet, variant: Variant, task: usize) -> Option<(u64, u64)> {
    let prep = prepare(ts)?;
    let outcomes = analyse_all(ts, variant, 0);
    if variant == Variant::Fifo {
        let r = outcomes.first()?.bound()?;
        let mut w = 0;
        for i in 0..ts.tasks.len() {
            let (wi, _) = witness_max_response(ts, &prep, variant, i)?;
            w = w.max(wi);
        }
        if w < r {
            return Some((r, w));
        }
        None
    } else {
        let r = outcomes.get(task)?.bound()?;
        let (w, _) = witness_max_response(ts, &prep, variant, task)?;
        if w < r {
            Some((r, w))
        } else {
            None
        }
    }
}

fn c18_item(root: u64, k: u64, acc: &mut Acc, note: &dyn Fn(&str), fps: &(Distinct, Distinct)) {
    use crate::desc::ArrDesc;
    let mut rng = Rng::new(Rng::run_seed(root, "C18", k));
    let mut in_rng = rng.split("input");
    // one input in 150: a long busy window whose decisive offset sits deep in the search space
    // (all models exact: the jittered periodic ones are written as Sporadic)
    let mut ts = if rng.split("coincidence").chance(1, 150) {
        acc.counters.inc("inputs_late_coincidence");
        let mut ts = crate::gen::coincidence_taskset(&mut in_rng);
        for t in ts.tasks.iter_mut() {
            let exact = match &t.arr {
                ArrDesc::Jittered(inner, j) | ArrDesc::Propagated(inner, j) => match **inner {
                    ArrDesc::Periodic(p) => Some(ArrDesc::Sporadic(p, *j)),
                    _ => None,
                },
                _ => None,
            };
            if let Some(a) = exact {
                t.arr = a;
            }
        }
        ts
    } else {
        let sw = exact_swarm(&mut in_rng);
        random_taskset(&mut in_rng, &sw)
    };
    note(&format!(
        "C18 input#{} (preparing) tasks=[{}]",
        k,
        ts.tasks.iter().map(|t| t.to_string()).collect::<Vec<_>>().join(" ; ")
    ));
    let pre_prep = prepare(&ts);
    if let Some(p) = &pre_prep {
        ts.limit = choose_limit(&mut rng.split("limit"), p.l_obs);
    }
    note(&format!(
        "C18 input#{} limit={} tasks=[{}]",
        k,
        ts.limit,
        ts.tasks.iter().map(|t| t.to_string()).collect::<Vec<_>>().join(" ; ")
    ));
    acc.counters.inc("inputs");
    let prep = match pre_prep {
        Some(p) => p,
        None => {
            acc.counters.inc("probe.model_panics");
            return;
        }
    };
    if prep.l_obs.is_none() {
        acc.counters.inc("probe.overloaded_inputs");
        return;
    }
    fps.1.insert(crate::rng::hash_str(&format!("{:?}", ts)));
    for (vi, variant) in [Variant::FpP, Variant::FpNp, Variant::Fifo].iter().enumerate() {
        let outcomes = analyse_all(&ts, *variant, 0);
        let entities: Vec<usize> = if *variant == Variant::Fifo {
            vec![0]
        } else {
            (0..ts.tasks.len()).collect()
        };
        for i in entities {
            let r = match outcomes[i] {
                Outcome::Ok(r) => r,
                Outcome::Err => {
                    acc.counters.inc("probe.analysis_err");
                    continue;
                }
                Outcome::Panic => {
                    acc.counters.inc("probe.analysis_panics");
                    continue;
                }
            };
            // witness
            let (w, sc) = if *variant == Variant::Fifo {
                let mut best: Option<(u64, Scenario)> = None;
                let mut ok = true;
                for v in 0..ts.tasks.len() {
                    match witness_max_response(&ts, &prep, *variant, v) {
                        Some((wi, sc)) => {
                            if best.as_ref().map(|b| wi > b.0).unwrap_or(true) {
                                best = Some((wi, sc));
                            }
                        }
                        None => ok = false,
                    }
                }
                match (ok, best) {
                    (true, Some(b)) => b,
                    _ => {
                        acc.counters.inc("probe.skipped_curve_not_exact");
                        continue;
                    }
                }
            } else {
                match witness_max_response(&ts, &prep, *variant, i) {
                    Some(x) => x,
                    None => {
                        acc.counters.inc("probe.skipped_curve_not_exact");
                        continue;
                    }
                }
            };
            acc.counters.inc("runs");
            acc.counters.add("sim_ticks", sc.time_cap);
            let fpv = crate::rng::hash_str(&format!("{:?}/{}/{}", ts, variant, i));
            fps.0.insert(fpv);
            acc.digest_add(fpv ^ w.wrapping_mul(0x9E37) ^ r);
            if ts.tasks.len() > 1 && w > ts.tasks[i].wcet {
                acc.counters.inc("runs_nontrivial");
            }
            match variant {
                Variant::FpP => acc.counters.inc("probe.checked_fp_preemptive"),
                Variant::FpNp => acc.counters.inc("probe.checked_fp_nonpreemptive"),
                _ => acc.counters.inc("probe.checked_fifo"),
            }
            acc.sample((k, vi as u64 * 100 + i as u64), || {
                let mut j = Json::obj();
                j.set("variant", Json::str(variant.name()));
                j.set("entity", Json::Int(i as i128));
                j.set(
                    "tasks",
                    Json::Arr(ts.tasks.iter().map(|t| Json::str(t.to_string())).collect()),
                );
                j.set("bound", Json::Int(r as i128));
                j.set("witness_max_response", Json::Int(w as i128));
                j.set("witness_jobs", Json::Int(sc.jobs.len() as i128));
                j
            });
            if w == r {
                acc.counters.inc("probe.bound_attained");
            } else if w > r {
                // unsafe, not slack: C01 / C03 territory (their campaigns sample this schedule family)
                acc.counters.inc("probe.witness_exceeds_bound");
            } else {
                acc.report(Report {
                    order: (k, vi as u64 * 100 + i as u64),
                    key: format!("{} slack", variant),
                    summary: format!(
                        "{}: bound {} for task {} but the worst-case witness schedule reaches only {}",
                        variant, r, i, w
                    ),
                    replay: tight_replay_text(&ts, *variant, i, r, w, &format!("seed={} input={}", root, k)),
                });
            }
        }
    }
}

fn parse_tight(text: &str) -> Result<(TaskSet, Variant, usize), String> {
    let mut tasks = Vec::new();
    let mut limit = None;
    let mut variant = None;
    let mut entity = 0usize;
    for line in text.lines() {
        let line = line.trim();
        let (head, rest) = line.split_once(' ').unwrap_or((line, ""));
        match head {
            "variant" => variant = Variant::from_name(rest.trim()),
            "limit" => limit = rest.trim().parse::<u64>().ok(),
            "entity" => entity = rest.trim().parse::<usize>().map_err(|e| e.to_string())?,
            "task" => {
                let (_, r2) = rest.trim().split_once(' ').ok_or("bad task line")?;
                tasks.push(crate::unisched::parse_task_line(r2)?);
            }
            _ => {}
        }
    }
    Ok((
        TaskSet {
            tasks,
            limit: limit.ok_or("no limit")?,
        },
        variant.ok_or("no variant")?,
        entity,
    ))
}

fn minimise_tight(ts: &TaskSet, variant: Variant, task: usize) -> (TaskSet, usize, u64, u64) {
    let mut best = ts.clone();
    let mut ent = task;
    let (mut r, mut w) = tight_check(&best, variant, ent).unwrap_or((0, 0));
    let mut progress = true;
    while progress {
        progress = false;
        let mut t = 0;
        while t < best.tasks.len() {
            if (variant == Variant::Fifo || t != ent) && best.tasks.len() > 1 {
                let mut cand = best.clone();
                cand.tasks.remove(t);
                let cent = if variant == Variant::Fifo { 0 } else if ent > t { ent - 1 } else { ent };
                if let Some((rr, ww)) = tight_check(&cand, variant, cent) {
                    best = cand;
                    ent = cent;
                    r = rr;
                    w = ww;
                    progress = true;
                    continue;
                }
            }
            t += 1;
        }
    }
    (best, ent, r, w)
}

pub fn run_c18(opt: &Options) -> i32 {
    let t0 = std::time::Instant::now();
    let inputs = opt.scaled(if opt.thorough() { 12_000_000 } else { 200_000 });
    let fps = (Distinct::new(28), Distinct::new(26));
    let root = opt.seed;
    let fin = |mut acc: Acc| -> i32 {
        let wall = t0.elapsed().as_secs_f64();
        let mut cov = Json::obj();
        cov.set("evaluations", Json::Int(acc.counters.get("runs") as i128));
        cov.set(
            "distinct_nontrivial",
            Json::Int(acc.counters.get("runs_nontrivial").min(fps.0.count()) as i128),
        );
        cov.set(
            "rule",
            Json::str(
                "one evaluation = one analysed entity (task under FP-P / FP-NP, or the task set under \
                 FIFO) whose arrival curves are attained by their dense sequences over the whole busy \
                 window: the real analysis is run, the constructive worst-case schedule (dense \
                 synchronous releases, WCET execution, analysed task loses every tie, NP blocker \
                 released one tick earlier) is simulated in the kernel and the largest response time \
                 must EQUAL the bound. distinct = distinct (task set, variant, entity) hashes; \
                 non-trivial = more than one task and the witness response exceeds the task's own WCET",
            ),
        );
        cov.set("distinct_entities", Json::Int(fps.0.count() as i128));
        cov.set("distinct_inputs", Json::Int(fps.1.count() as i128));
        cov.set("simulated_time_ticks", Json::Int(acc.counters.get("sim_ticks") as i128));
        cov.set("components", components_json(REAL_STUB_UNI.0, REAL_STUB_UNI.1));
        let out = finish(
            opt,
            &mut acc,
            wall,
            cov,
            &[
                "tightness is demanded only for Periodic, Sporadic and ExtrapolatingCurve inputs whose dense sequence attains number_arrivals on [0, delta) for every delta up to the busy window (checked per input)",
                "existence of a witness is decided constructively; a bound that is attained only by a schedule outside the constructive family would be reported as slack (none found on the pinned tree)",
            ],
            &|r: &Report| {
                match parse_tight(&r.replay) {
                    Ok((ts, variant, ent)) => {
                        let (m, e, rr, ww) = minimise_tight(&ts, variant, ent);
                        let note = header_value(&r.replay, "note").unwrap_or("");
                        (
                            tight_replay_text(&m, variant, e, rr, ww, &format!("{} (minimised from {} tasks)", note, ts.tasks.len())),
                            format!("{}: bound {} but witness schedule reaches only {}", variant, rr, ww),
                        )
                    }
                    Err(e) => {
                        eprintln!("HARNESS-ERROR: own replay text does not parse: {}", e);
                        std::process::exit(2);
                    }
                }
            },
        );
        out.exit_code
    };
    run_parallel_then(inputs, opt.jobs, 60, |k, acc, note| {
        c18_item(root, k, acc, note, &fps)
    }, &fin)
}

pub fn debug_tight(text: &str) {
    let (ts, variant, _ent) = parse_tight(text).unwrap();
    let prep = prepare(&ts).unwrap();
    println!("l_obs = {:?}", prep.l_obs);
    for (i, t) in ts.tasks.iter().enumerate() {
        let dd = doc_dense(&t.arr, 200, 60);
        println!("task {} doc_dense = {:?}", i, dd);
        println!("task {} lib_dense = {:?}", i, &prep.dense[i][..prep.dense[i].len().min(30)]);
        println!("task {} eta[0..60] = {:?}", i, &prep.adm[i].eta[..60.min(prep.adm[i].eta.len())]);
    }
    println!("bounds = {:?}", analyse_all(&ts, variant, 0));
    for i in 0..ts.tasks.len() {
        if let Some((w, sc)) = witness_max_response(&ts, &prep, variant, i) {
            println!("victim {} witness max {} jobs {}", i, w, sc.jobs.len());
            let none: Vec<Option<u64>> = vec![None; ts.tasks.len()];
            let res = run_scenario(&sc, &none, false);
            println!("   max_resp {:?} worst {:?}", res.max_resp, res.worst);
        }
    }
}

pub fn replay_tight(path: &str, text: &str) -> i32 {
    match parse_tight(text) {
        Err(e) => {
            eprintln!("HARNESS-ERROR: cannot parse replay file: {}", e);
            2
        }
        Ok((ts, variant, ent)) => match tight_check(&ts, variant, ent) {
            Some((r, w)) => {
                println!(
                    "violation: {}: bound {} but the worst-case witness schedule reaches only {}",
                    variant, r, w
                );
                println!("VIOLATION property=C18 replay={}", path);
                1
            }
            None => {
                println!("replay: bound attained (or no claim)");
                0
            }
        },
    }
}
