//! The only source of randomness in the simulator.
//!
//! SplitMix64 for seeding / stream derivation, xoshiro256** for drawing.
//! A run is a pure function of (tree, seed); nothing here reads a clock,
//! a thread id or an address.

#[derive(Clone, Debug)]
pub struct Rng {
    s: [u64; 4],
}

pub fn splitmix(mut x: u64) -> u64 {
    x = x.wrapping_add(0x9E37_79B9_7F4A_7C15);
    let mut z = x;
    z = (z ^ (z >> 30)).wrapping_mul(0xBF58_476D_1CE4_E5B9);
    z = (z ^ (z >> 27)).wrapping_mul(0x94D0_49BB_1331_11EB);
    z ^ (z >> 31)
}

/// FNV-1a over a byte string; used to derive per-property streams.
pub fn hash_str(s: &str) -> u64 {
    let mut h: u64 = 0xcbf2_9ce4_8422_2325;
    for b in s.bytes() {
        h ^= b as u64;
        h = h.wrapping_mul(0x0000_0100_0000_01B3);
    }
    h
}

/// Incremental 64-bit fingerprint of an event log.
#[derive(Clone, Copy, Debug)]
pub struct Fingerprint(pub u64);

impl Fingerprint {
    pub fn new() -> Self {
        Fingerprint(0x1234_5678_9abc_def1)
    }
    #[inline]
    pub fn add(&mut self, v: u64) {
        self.0 = (self.0 ^ v).wrapping_mul(0x0000_0100_0000_01B3);
        self.0 ^= self.0 >> 29;
    }
    pub fn finish(self) -> u64 {
        splitmix(self.0)
    }
}

impl Rng {
    pub fn new(seed: u64) -> Rng {
        let a = splitmix(seed);
        let b = splitmix(a);
        let c = splitmix(b);
        let d = splitmix(c);
        Rng { s: [a, b, c, d | 1] }
    }

    /// Seed of run `k` of property `prop` under root seed `root`.
    pub fn run_seed(root: u64, prop: &str, k: u64) -> u64 {
        splitmix(root ^ hash_str(prop).rotate_left(17) ^ splitmix(k))
    }

    /// Independent sub-stream; does not advance `self`'s own sequence in a
    /// way that depends on how much the sub-stream is used.
    pub fn split(&mut self, tag: &str) -> Rng {
        let x = self.next_u64();
        Rng::new(x ^ hash_str(tag))
    }

    #[inline]
    pub fn next_u64(&mut self) -> u64 {
        let result = self.s[1].wrapping_mul(5).rotate_left(7).wrapping_mul(9);
        let t = self.s[1] << 17;
        self.s[2] ^= self.s[0];
        self.s[3] ^= self.s[1];
        self.s[1] ^= self.s[2];
        self.s[0] ^= self.s[3];
        self.s[2] ^= t;
        self.s[3] = self.s[3].rotate_left(45);
        result
    }

    /// Uniform in `[0, n)`; `n == 0` yields 0.
    #[inline]
    pub fn below(&mut self, n: u64) -> u64 {
        if n <= 1 {
            return 0;
        }
        // multiply-shift; bias is irrelevant for our purposes but keep it small
        ((self.next_u64() as u128 * n as u128) >> 64) as u64
    }

    /// Uniform in `[lo, hi]` (inclusive).
    #[inline]
    pub fn range(&mut self, lo: u64, hi: u64) -> u64 {
        debug_assert!(lo <= hi);
        lo + self.below(hi - lo + 1)
    }

    #[inline]
    pub fn chance(&mut self, num: u64, den: u64) -> bool {
        self.below(den) < num
    }

    pub fn pick<'a, T>(&mut self, xs: &'a [T]) -> &'a T {
        &xs[self.below(xs.len() as u64) as usize]
    }

    pub fn index(&mut self, n: usize) -> usize {
        self.below(n as u64) as usize
    }

    /// Weighted pick: returns index `i` with probability `w[i] / sum(w)`.
    pub fn weighted(&mut self, w: &[u64]) -> usize {
        let total: u64 = w.iter().sum();
        let mut x = self.below(total.max(1));
        for (i, wi) in w.iter().enumerate() {
            if x < *wi {
                return i;
            }
            x -= *wi;
        }
        w.len() - 1
    }

    pub fn shuffle<T>(&mut self, xs: &mut [T]) {
        for i in (1..xs.len()).rev() {
            let j = self.below(i as u64 + 1) as usize;
            xs.swap(i, j);
        }
    }
}
