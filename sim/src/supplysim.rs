//! C09: reservation-server simulation.  The server stub delivers, in every period of length P, at
//! least Q service slots within the first D slots (D = P for the periodic model), wherever the
//! adversary likes.  The recorded supply histories are metered in every window and compared with
//! the library's `provided_service` / `service_time` (specialised and trait-default).

use response_time_analysis::supply::SupplyBound;
use response_time_analysis::time::{Duration, Service};

use crate::analysis::guarded;
use crate::desc::{d, du, s, su, SupDesc};
use crate::harness::{components_json, finish, Options};
use crate::json::Json;
use crate::rng::{hash_str, Fingerprint, Rng};
use crate::stats::{run_parallel_then, Acc, Distinct, Report};

/// A supply that implements only `provided_service`, so that the trait's default
/// `service_time` runs.
pub struct OnlySbf<'a>(pub &'a dyn SupplyBound);

impl<'a> SupplyBound for OnlySbf<'a> {
    fn provided_service(&self, delta: Duration) -> Service {
        self.0.provided_service(delta)
    }
}

/// Static cyclic server: SBF obtained by metering the slot table (harness side); only
/// `provided_service` is implemented, so `service_time` is the library's default.
pub struct TableSbf {
    /// sbf[δ] for δ in 0..=len
    pub sbf: Vec<u64>,
    pub len: u64,
    pub ones: u64,
}

impl TableSbf {
    pub fn from_table(table: &[bool]) -> TableSbf {
        let n = table.len();
        let ones = table.iter().filter(|b| **b).count() as u64;
        let mut sbf = vec![0u64; n + 1];
        for delta in 1..=n {
            let mut best = u64::MAX;
            for start in 0..n {
                let mut c = 0;
                for k in 0..delta {
                    if table[(start + k) % n] {
                        c += 1;
                    }
                }
                best = best.min(c);
            }
            sbf[delta] = best;
        }
        TableSbf {
            sbf,
            len: n as u64,
            ones,
        }
    }
    pub fn value(&self, delta: u64) -> u64 {
        (delta / self.len) * self.ones + self.sbf[(delta % self.len) as usize]
    }
}

impl SupplyBound for TableSbf {
    fn provided_service(&self, delta: Duration) -> Service {
        s(self.value(du(delta)))
    }
}

#[derive(Clone, Copy, Debug, PartialEq, Eq)]
pub enum Placement {
    Early,
    Late,
    EarlyThenLate(usize),
    LateThenEarly(usize),
    Random,
    Mixed,
    OverProvision,
}

/// One supply history over `periods` periods.  Returns the slot vector and how often each
/// placement kind fired: (early, late, random, overprovisioned).
pub fn gen_history(
    q: u64,
    dl: u64,
    p: u64,
    periods: usize,
    strat: Placement,
    rng: &mut Rng,
    fired: &mut [u64; 4],
) -> Vec<bool> {
    let mut h = vec![false; periods * p as usize];
    for k in 0..periods {
        let base = k * p as usize;
        let kind = match strat {
            Placement::Early => 0,
            Placement::Late => 1,
            Placement::EarlyThenLate(sw) => {
                if k < sw {
                    0
                } else {
                    1
                }
            }
            Placement::LateThenEarly(sw) => {
                if k < sw {
                    1
                } else {
                    0
                }
            }
            Placement::Random => 2,
            Placement::Mixed => rng.below(3),
            Placement::OverProvision => 3,
        };
        match kind {
            0 => {
                for i in 0..q as usize {
                    h[base + i] = true;
                }
                fired[0] += 1;
            }
            1 => {
                for i in (dl - q) as usize..dl as usize {
                    h[base + i] = true;
                }
                fired[1] += 1;
            }
            _ => {
                // random Q-subset of the first D slots
                let mut idx: Vec<usize> = (0..dl as usize).collect();
                rng.shuffle(&mut idx);
                for i in idx.iter().take(q as usize) {
                    h[base + *i] = true;
                }
                fired[2] += 1;
                if kind == 3 {
                    // "at least": occasionally more than Q, anywhere in the period
                    let extra = rng.range(1, (p - q).max(1));
                    for _ in 0..extra {
                        let i = rng.below(p) as usize;
                        h[base + i] = true;
                    }
                    fired[3] += 1;
                }
            }
        }
    }
    h
}

pub fn history_legal(h: &[bool], q: u64, dl: u64, p: u64) -> bool {
    if h.len() % p as usize != 0 {
        return false;
    }
    for k in 0..h.len() / p as usize {
        let base = k * p as usize;
        let c = h[base..base + dl as usize].iter().filter(|b| **b).count() as u64;
        if c < q {
            return false;
        }
    }
    true
}

fn prefix(h: &[bool]) -> Vec<u64> {
    let mut cum = vec![0u64; h.len() + 1];
    for i in 0..h.len() {
        cum[i + 1] = cum[i] + h[i] as u64;
    }
    cum
}

/// minimum service over all windows of each length δ ≤ max_delta, and the position attaining it
pub fn window_minima(h: &[bool], max_delta: usize) -> Vec<(u64, usize)> {
    let cum = prefix(h);
    let mut out = vec![(0u64, 0usize); max_delta + 1];
    for delta in 1..=max_delta.min(h.len()) {
        let mut best = (u64::MAX, 0usize);
        for st in 0..=(h.len() - delta) {
            let v = cum[st + delta] - cum[st];
            if v < best.0 {
                best = (v, st);
            }
        }
        out[delta] = best;
    }
    out
}

/// longest time to drain a demand of `dem` units injected at any instant (only instants from
/// which the demand drains inside the history count), and the instant attaining it
pub fn max_drain(h: &[bool], dem: u64) -> Option<(u64, usize)> {
    let cum = prefix(h);
    let n = h.len();
    let mut best: Option<(u64, usize)> = None;
    let mut end = 0usize; // exclusive end of the window [st, end)
    for st in 0..n {
        if end < st {
            end = st;
        }
        while end < n && cum[end] - cum[st] < dem {
            end += 1;
        }
        if cum[end] - cum[st] < dem {
            break; // does not drain inside the history from here on
        }
        let t = (end - st) as u64;
        if best.map(|b| t > b.0).unwrap_or(true) {
            best = Some((t, st));
        }
    }
    best
}

pub fn bits(h: &[bool]) -> String {
    h.iter().map(|b| if *b { '1' } else { '0' }).collect()
}

fn replay_text(kind: &str, sup: &SupDesc, hist: &str, detail: &str, note: &str) -> String {
    format!(
        "rtasim-replay 1\nproperty C09\nengine supply\nkind {}\nsupply {}\nhistory {}\nexpect {}\nnote {}\n",
        kind, sup, hist, detail, note
    )
}

fn lib_values(sup: &SupDesc, max_delta: u64, max_dem: u64) -> Option<(Vec<u64>, Vec<u64>, Vec<u64>)> {
    let sup = sup.clone();
    guarded(move || {
        let b = sup.build();
        let sbf: Vec<u64> = (0..=max_delta).map(|x| su(b.provided_service(d(x)))).collect();
        let st: Vec<u64> = (0..=max_dem).map(|x| du(b.service_time(s(x)))).collect();
        let only = OnlySbf(&*b);
        let st_default: Vec<u64> = (0..=max_dem).map(|x| du(only.service_time(s(x)))).collect();
        (sbf, st, st_default)
    })
}

pub struct SupplyShared<'a> {
    pub root: u64,
    pub configs: &'a [SupDesc],
    pub histories_per_config: u64,
    pub fps: &'a Distinct,
    pub nontrivial: &'a Distinct,
}

/// One reservation configuration: many histories, all windows.
pub fn supply_item(sh: &SupplyShared, k: u64, acc: &mut Acc, note: &dyn Fn(&str)) {
    let sup = &sh.configs[k as usize];
    let (q, dl, p) = sup.qdp();
    note(&format!("C09 config#{} {}", k, sup));
    let mut rng = Rng::new(Rng::run_seed(sh.root, "C09", k));
    acc.counters.inc("configs");
    let periods = 8usize;
    let max_delta = (4 * p) as usize;
    let max_dem = 3 * q;
    let (sbf, st, st_default) = match lib_values(sup, max_delta as u64 + 1, max_dem) {
        Some(v) => v,
        None => {
            acc.counters.inc("probe.model_panics");
            acc.report(Report {
                order: (k, 0),
                key: "supply model panicked".into(),
                summary: format!("{}: provided_service / service_time panicked", sup),
                replay: replay_text("panic", sup, "", "library call panics", ""),
            });
            return;
        }
    };
    // direct assertions on the library values
    let mut direct_fail: Option<String> = None;
    if sbf[0] != 0 {
        direct_fail = Some(format!("provided_service(0) = {} != 0", sbf[0]));
    }
    for x in 1..sbf.len() {
        if sbf[x] < sbf[x - 1] {
            direct_fail = Some(format!("provided_service not monotone at delta={}", x));
        }
        if sbf[x] > sbf[x - 1] + 1 {
            direct_fail = Some(format!(
                "provided_service grows by more than one at delta={} ({} -> {})",
                x,
                sbf[x - 1],
                sbf[x]
            ));
        }
    }
    if let Some(msg) = direct_fail {
        acc.report(Report {
            order: (k, 1),
            key: "sbf shape".into(),
            summary: format!("{}: {}", sup, msg),
            replay: replay_text("shape", sup, "", &msg, &format!("seed={} config={}", sh.root, k)),
        });
    }

    let mut min_seen: Vec<u64> = vec![u64::MAX; max_delta + 1];
    let mut min_wit: Vec<(String, usize)> = vec![(String::new(), 0); max_delta + 1];
    let mut drain_seen: Vec<u64> = vec![0; max_dem as usize + 1];
    let mut drain_wit: Vec<(String, usize)> = vec![(String::new(), 0); max_dem as usize + 1];
    let mut fired = [0u64; 4];
    let mut reported_unsound = false;

    for hidx in 0..sh.histories_per_config {
        let strat = match hidx {
            0 => Placement::Early,
            1 => Placement::Late,
            2..=5 => Placement::EarlyThenLate(hidx as usize - 1),
            6..=7 => Placement::LateThenEarly(hidx as usize - 4),
            _ => match rng.below(6) {
                0 => Placement::EarlyThenLate(rng.range(1, 4) as usize),
                1 => Placement::Mixed,
                2 => Placement::OverProvision,
                _ => Placement::Random,
            },
        };
        let mut hrng = rng.split(&format!("h{}", hidx));
        let h = gen_history(q, dl, p, periods, strat, &mut hrng, &mut fired);
        if !history_legal(&h, q, dl, p) {
            eprintln!("HARNESS-ERROR: reservation stub produced an illegal history");
            std::process::exit(2);
        }
        acc.counters.inc("runs");
        acc.counters.add("sim_ticks", h.len() as u64);
        let mut fp = Fingerprint::new();
        fp.add(hash_str(&sup.to_string()));
        for chunk in h.chunks(64) {
            let mut w = 0u64;
            for (i, b) in chunk.iter().enumerate() {
                if *b {
                    w |= 1 << i;
                }
            }
            fp.add(w);
        }
        let fpv = fp.finish();
        sh.fps.insert(fpv);
        acc.digest_add(fpv);
        if q < p {
            sh.nontrivial.insert(fpv);
            acc.counters.inc("runs_nontrivial");
        }
        let mins = window_minima(&h, max_delta);
        for delta in 1..=max_delta {
            let (v, pos) = mins[delta];
            acc.counters.inc("windows_lengths_metered");
            if v < sbf[delta] && !reported_unsound {
                // 1. soundness: a legal history delivers less than the SBF promises
                reported_unsound = true;
                acc.report(Report {
                    order: (k, 10 + hidx),
                    key: "sbf unsound".into(),
                    summary: format!(
                        "{}: a legal budget placement delivers {} units in the window [{}, {}) but provided_service({}) = {}",
                        sup, v, pos, pos + delta, delta, sbf[delta]
                    ),
                    replay: replay_text(
                        "window",
                        sup,
                        &bits(&h),
                        &format!("start={} delta={} delivered={} provided_service={}", pos, delta, v, sbf[delta]),
                        &format!("seed={} config={} history={}", sh.root, k, hidx),
                    ),
                });
            }
            if v < min_seen[delta] {
                min_seen[delta] = v;
                min_wit[delta] = (bits(&h), pos);
            }
        }
        for dem in 1..=max_dem {
            if let Some((t, pos)) = max_drain(&h, dem) {
                if t > drain_seen[dem as usize] {
                    drain_seen[dem as usize] = t;
                    drain_wit[dem as usize] = (bits(&h), pos);
                }
            }
        }
        acc.sample((k, hidx), || {
            let mut j = Json::obj();
            j.set("supply", Json::str(sup.to_string()));
            j.set("placement", Json::str(format!("{:?}", strat)));
            j.set("history", Json::str(bits(&h)));
            j
        });
    }
    acc.counters.add("fault.budget_early", fired[0]);
    acc.counters.add("fault.budget_late", fired[1]);
    acc.counters.add("fault.budget_random_placement", fired[2]);
    acc.counters.add("fault.budget_overprovisioned", fired[3]);

    // 2. exactness: the adversary must be able to force exactly provided_service(δ)
    for delta in 1..=max_delta {
        if min_seen[delta] != u64::MAX && min_seen[delta] > sbf[delta] {
            acc.report(Report {
                order: (k, 1_000_000 + delta as u64),
                key: "sbf pessimistic".into(),
                summary: format!(
                    "{}: provided_service({}) = {} but no placement delivers fewer than {} units in any window of that length",
                    sup, delta, sbf[delta], min_seen[delta]
                ),
                replay: replay_text(
                    "exact",
                    sup,
                    &min_wit[delta].0,
                    &format!("delta={} provided_service={} minimum_over_placements={} at={}", delta, sbf[delta], min_seen[delta], min_wit[delta].1),
                    &format!("seed={} config={}", sh.root, k),
                ),
            });
            break;
        } else if min_seen[delta] == sbf[delta] {
            acc.counters.inc("probe.sbf_value_attained");
        }
    }
    // 3. inverse, specialised and default: drain time of an injected demand
    for (name, table) in [("service_time", &st), ("default service_time", &st_default)] {
        for dem in 1..=max_dem {
            let seen = drain_seen[dem as usize];
            let claimed = table[dem as usize];
            if seen > claimed {
                acc.report(Report {
                    order: (k, 2_000_000 + dem),
                    key: format!("{} unsound", name),
                    summary: format!(
                        "{}: a demand of {} injected at {} drains only after {} but {}({}) = {}",
                        sup, dem, drain_wit[dem as usize].1, seen, name, dem, claimed
                    ),
                    replay: replay_text(
                        if name == "service_time" { "drain" } else { "drain-default" },
                        sup,
                        &drain_wit[dem as usize].0,
                        &format!("start={} demand={} drained_after={} claimed={}", drain_wit[dem as usize].1, dem, seen, claimed),
                        &format!("seed={} config={}", sh.root, k),
                    ),
                });
                break;
            } else if seen < claimed {
                acc.report(Report {
                    order: (k, 3_000_000 + dem),
                    key: format!("{} pessimistic", name),
                    summary: format!(
                        "{}: {}({}) = {} but every placement drains a demand of {} within {}",
                        sup, name, dem, claimed, dem, seen
                    ),
                    replay: replay_text(
                        if name == "service_time" { "drain-exact" } else { "drain-exact-default" },
                        sup,
                        &drain_wit[dem as usize].0,
                        &format!("demand={} claimed={} worst_drain_over_placements={}", dem, claimed, seen),
                        &format!("seed={} config={}", sh.root, k),
                    ),
                });
                break;
            } else {
                acc.counters.inc("probe.service_time_attained");
            }
        }
        if st[0] != 0 || st_default[0] != 0 {
            acc.report(Report {
                order: (k, 4_000_000),
                key: "service_time(0) != 0".into(),
                summary: format!("{}: service_time(0) = {} / default {}", sup, st[0], st_default[0]),
                replay: replay_text("shape", sup, "", "service_time(0) != 0", ""),
            });
        }
    }
    // 5. degenerate equalities, metered through the same histories (they share min_seen /
    // drain_seen): a constrained reservation with D = P is the periodic one; Q = P is dedicated
    let twin: Option<SupDesc> = match sup {
        SupDesc::Constrained(q, dl, p) if dl == p => Some(SupDesc::Periodic(*q, *p)),
        SupDesc::Periodic(q, p) if q == p => Some(SupDesc::Dedicated),
        SupDesc::Periodic(q, p) => Some(SupDesc::Constrained(*q, *p, *p)),
        _ => None,
    };
    if let Some(tw) = twin {
        if let Some((sbf2, st2, _)) = lib_values(&tw, max_delta as u64 + 1, max_dem) {
            acc.counters.inc("probe.degenerate_twin_compared");
            if sbf2 != sbf || st2 != st {
                acc.report(Report {
                    order: (k, 5_000_000),
                    key: "degenerate twins differ".into(),
                    summary: format!("{} and {} describe the same server but meter differently", sup, tw),
                    replay: replay_text("twin", sup, "", &format!("twin={}", tw), &format!("seed={} config={}", sh.root, k)),
                });
            }
        }
    }
}

/// 4b. static cyclic server: default `service_time` on a metered SBF.
pub fn table_item(root: u64, k: u64, acc: &mut Acc, fps: &Distinct) {
    let mut rng = Rng::new(Rng::run_seed(root, "C09-table", k));
    let n = rng.range(1, 16) as usize;
    let mut table: Vec<bool> = (0..n).map(|_| rng.chance(1, 2)).collect();
    if !table.iter().any(|b| *b) {
        let i = rng.index(n);
        table[i] = true;
    }
    let sbf = TableSbf::from_table(&table);
    acc.counters.inc("runs");
    acc.counters.inc("table_servers");
    let fpv = hash_str(&bits(&table)) ^ 0x7ab1e;
    fps.insert(fpv);
    acc.digest_add(fpv);
    // the cyclic history, long enough for every demand considered
    let max_dem = 3 * sbf.ones + 2;
    let reps = (max_dem / sbf.ones + 3) as usize + 2;
    let mut h = Vec::with_capacity(n * reps);
    for _ in 0..reps {
        h.extend_from_slice(&table);
    }
    acc.counters.add("sim_ticks", h.len() as u64);
    for dem in 0..=max_dem {
        let claimed = match guarded(|| du(sbf.service_time(s(dem)))) {
            Some(v) => v,
            None => {
                acc.report(Report {
                    order: (k, dem),
                    key: "default service_time panicked".into(),
                    summary: format!("table {}: default service_time({}) panicked", bits(&table), dem),
                    replay: format!("rtasim-replay 1\nproperty C09\nengine supply\nkind table\ntable {}\nexpect demand={}\n", bits(&table), dem),
                });
                return;
            }
        };
        // worst drain over all phases of the cyclic schedule
        let mut worst = 0u64;
        if dem > 0 {
            let cum = prefix(&h);
            for st in 0..n {
                let mut end = st;
                while cum[end] - cum[st] < dem {
                    end += 1;
                }
                worst = worst.max((end - st) as u64);
            }
        }
        if claimed != worst {
            acc.report(Report {
                order: (k, dem),
                key: if claimed < worst {
                    "default service_time unsound (cyclic server)".into()
                } else {
                    "default service_time pessimistic (cyclic server)".into()
                },
                summary: format!(
                    "static cyclic server {}: default service_time({}) = {} but the worst drain time over all phases is {}",
                    bits(&table), dem, claimed, worst
                ),
                replay: format!(
                    "rtasim-replay 1\nproperty C09\nengine supply\nkind table\ntable {}\nexpect demand={} claimed={} worst_drain={}\nnote seed={} table={}\n",
                    bits(&table), dem, claimed, worst, root, k
                ),
            });
            return;
        }
        acc.counters.inc("probe.table_service_time_attained");
    }
}

/// All Q-subsets of `0..d` as bit masks.
fn subsets(d: u64, q: u64) -> Vec<u32> {
    (0u32..(1u32 << d)).filter(|m| m.count_ones() as u64 == q).collect()
}

/// 4c. exhaustive enumeration for small periods: EVERY placement of exactly Q slots within the
/// first D slots of each of five consecutive periods.  The minimum over all of them is the true
/// supply-bound function (more than Q only adds service), the maximum drain time its true inverse.
pub fn exhaustive_item(root: u64, k: u64, sup: &SupDesc, acc: &mut Acc, fps: &Distinct) {
    let (q, dl, p) = sup.qdp();
    let periods = 5usize;
    let max_delta = (4 * p) as usize;
    let max_dem = 3 * q;
    let (sbf, st, st_default) = match lib_values(sup, max_delta as u64 + 1, max_dem) {
        Some(v) => v,
        None => return,
    };
    let subs = subsets(dl, q);
    let mut idx = vec![0usize; periods];
    let mut min_seen = vec![u64::MAX; max_delta + 1];
    let mut drain_seen = vec![0u64; max_dem as usize + 1];
    let mut count = 0u64;
    loop {
        let mut h = vec![false; periods * p as usize];
        for (k2, i) in idx.iter().enumerate() {
            let m = subs[*i];
            for b in 0..dl as usize {
                if m & (1 << b) != 0 {
                    h[k2 * p as usize + b] = true;
                }
            }
        }
        count += 1;
        let mins = window_minima(&h, max_delta);
        for x in 1..=max_delta {
            min_seen[x] = min_seen[x].min(mins[x].0);
        }
        for dem in 1..=max_dem {
            if let Some((t, _)) = max_drain(&h, dem) {
                drain_seen[dem as usize] = drain_seen[dem as usize].max(t);
            }
        }
        // next placement (mixed-radix counter)
        let mut pos = 0;
        loop {
            if pos == periods {
                break;
            }
            idx[pos] += 1;
            if idx[pos] < subs.len() {
                break;
            }
            idx[pos] = 0;
            pos += 1;
        }
        if pos == periods {
            break;
        }
    }
    acc.counters.add("runs", count);
    acc.counters.add("runs_nontrivial", if q < p { count } else { 0 });
    acc.counters.add("exhaustive_placements_enumerated", count);
    acc.counters.inc("exhaustive_small_period_configs");
    acc.counters.add("sim_ticks", count * (periods as u64) * p);
    let fpv = hash_str(&format!("exhaustive/{}", sup));
    fps.insert(fpv);
    acc.digest_add(fpv ^ count);
    let note = format!("seed={} exhaustive config={}", root, k);
    for x in 1..=max_delta {
        if min_seen[x] != sbf[x] {
            acc.report(Report {
                order: (k, 6_000_000 + x as u64),
                key: if min_seen[x] < sbf[x] { "sbf unsound".into() } else { "sbf pessimistic".into() },
                summary: format!(
                    "{}: over ALL placements the minimum service in a window of length {} is {}, provided_service says {}",
                    sup, x, min_seen[x], sbf[x]
                ),
                replay: replay_text("exhaustive", sup, "", &format!("delta={} minimum_over_all_placements={} provided_service={}", x, min_seen[x], sbf[x]), &note),
            });
            break;
        }
    }
    for (name, table) in [("service_time", &st), ("default service_time", &st_default)] {
        for dem in 1..=max_dem as usize {
            if drain_seen[dem] != table[dem] {
                acc.report(Report {
                    order: (k, 7_000_000 + dem as u64),
                    key: format!("{} {}", name, if drain_seen[dem] > table[dem] { "unsound" } else { "pessimistic" }),
                    summary: format!(
                        "{}: over ALL placements the longest drain time of a demand of {} is {}, {} says {}",
                        sup, dem, drain_seen[dem], name, table[dem]
                    ),
                    replay: replay_text("exhaustive", sup, "", &format!("demand={} worst_drain_over_all_placements={} claimed={}", dem, drain_seen[dem], table[dem]), &note),
                });
                break;
            }
        }
    }
}

/// A user-defined supply given only by a curve: cyclic 0/1 increments (zero at zero,
/// non-decreasing, at most one per time unit, unbounded) — not necessarily the supply-bound
/// function of any real server (it need not be super-additive).
pub struct SynthSbf {
    pub inc: Vec<bool>,
    cum: Vec<u64>,
}

impl SynthSbf {
    pub fn new(inc: Vec<bool>) -> SynthSbf {
        let mut cum = vec![0u64; inc.len() + 1];
        for i in 0..inc.len() {
            cum[i + 1] = cum[i] + inc[i] as u64;
        }
        SynthSbf { inc, cum }
    }
    pub fn value(&self, delta: u64) -> u64 {
        let n = self.inc.len() as u64;
        (delta / n) * self.cum[n as usize] + self.cum[(delta % n) as usize]
    }
}

impl SupplyBound for SynthSbf {
    fn provided_service(&self, delta: Duration) -> Service {
        s(self.value(du(delta)))
    }
}

/// 4d. (ride-along, pure) the trait's default `service_time` must be the exact pseudo-inverse of
/// ANY user-defined curve, including ones with a slope-one head followed by a long plateau.
pub fn synthetic_item(root: u64, k: u64, acc: &mut Acc, fps: &Distinct) {
    let mut rng = Rng::new(Rng::run_seed(root, "C09-synth", k));
    let mut inc: Vec<bool> = Vec::new();
    let segments = rng.range(1, 6);
    for sgm in 0..segments {
        let len = match rng.below(4) {
            0 => rng.range(1, 3),
            1 => rng.range(1, 12),
            _ => rng.range(10, 120),
        };
        let up = if sgm == 0 { rng.chance(1, 2) } else { !*inc.last().unwrap() };
        for _ in 0..len {
            inc.push(up);
        }
    }
    if !inc.iter().any(|b| *b) {
        inc.push(true);
    }
    let sbf = SynthSbf::new(inc.clone());
    let ones = inc.iter().filter(|b| **b).count() as u64;
    acc.counters.inc("runs");
    acc.counters.inc("runs_nontrivial");
    acc.counters.inc("synthetic_curves");
    let fpv = hash_str(&bits(&inc)) ^ 0x51;
    fps.insert(fpv);
    acc.digest_add(fpv);
    let n_inc = sbf.inc.len() as u64;
    let (mut t, mut val_t) = (0u64, 0u64);
    for dem in 0..=(3 * ones + 2) {
        let claimed = match guarded(|| du(sbf.service_time(s(dem)))) {
            Some(v) => v,
            None => {
                acc.report(Report {
                    order: (k, dem),
                    key: "default service_time panicked".into(),
                    summary: format!("user-defined curve {}: default service_time({}) panicked", bits(&inc), dem),
                    replay: format!("rtasim-replay 1\nproperty C09\nengine supply\nkind synthetic\ncurve {}\nexpect demand={}\n", bits(&inc), dem),
                });
                return;
            }
        };
        // least t with value(t) >= dem (t is non-decreasing in dem: continue where we stopped)
        while val_t < dem {
            if sbf.inc[(t % n_inc) as usize] {
                val_t += 1;
            }
            t += 1;
        }
        if claimed != t {
            acc.report(Report {
                order: (k, dem),
                key: if claimed < t {
                    "default service_time unsound (user-defined curve)".into()
                } else {
                    "default service_time pessimistic (user-defined curve)".into()
                },
                summary: format!(
                    "user-defined supply curve with increments {}: default service_time({}) = {} but the smallest t with provided_service(t) >= {} is {}",
                    bits(&inc), dem, claimed, dem, t
                ),
                replay: format!(
                    "rtasim-replay 1\nproperty C09\nengine supply\nkind synthetic\ncurve {}\nexpect demand={} claimed={} least_t={}\nnote seed={} curve={}\n",
                    bits(&inc), dem, claimed, t, root, k
                ),
            });
            return;
        }
        acc.counters.inc("probe.synthetic_inverse_exact");
    }
}

/// Run-length text of a 0/1 vector ("3x0,2x1,...") for replay files of long sparse curves.
fn rle(inc: &[bool]) -> String {
    let mut out: Vec<String> = Vec::new();
    let mut i = 0;
    while i < inc.len() {
        let mut j = i;
        while j < inc.len() && inc[j] == inc[i] {
            j += 1;
        }
        out.push(format!("{}x{}", j - i, inc[i] as u8));
        i = j;
    }
    out.join(",")
}

fn un_rle(text: &str) -> Option<Vec<bool>> {
    let mut v = Vec::new();
    for part in text.split(',') {
        let (n, b) = part.trim().split_once('x')?;
        let n: usize = n.parse().ok()?;
        if n > 1_000_000 {
            return None;
        }
        for _ in 0..n {
            v.push(b.trim() == "1");
        }
    }
    Some(v)
}

/// `claimed` is the least t with `ps(t) >= dem` (for a monotone `ps`)?
fn is_least_inverse(ps: &dyn Fn(u64) -> Option<u64>, dem: u64, claimed: u64) -> Option<Result<(), String>> {
    let at = ps(claimed)?;
    if at < dem {
        return Some(Err(format!(
            "provided_service({}) = {} < demand {}",
            claimed, at, dem
        )));
    }
    if claimed > 0 {
        let before = ps(claimed - 1)?;
        if before >= dem {
            return Some(Err(format!(
                "provided_service({}) = {} already meets demand {}",
                claimed - 1,
                before,
                dem
            )));
        }
    }
    Some(Ok(()))
}

/// 4e. (ride-along, pure) sparse supplies and large demands: the default `service_time` needs
/// thousands of rounds here.  Half of the items use a user-defined sparse curve, half a real
/// `Periodic` / `Constrained` reservation with a long period (default and specialised inverse).
pub fn sparse_item(root: u64, k: u64, acc: &mut Acc, fps: &Distinct) {
    let mut rng = Rng::new(Rng::run_seed(root, "C09-sparse", k));
    acc.counters.inc("runs");
    acc.counters.inc("runs_nontrivial");
    acc.counters.inc("sparse_supplies");
    let mut demands: Vec<u64> = (0..=6).collect();
    for _ in 0..10 {
        demands.push(rng.range(7, 60));
    }
    for _ in 0..8 {
        demands.push(rng.range(60, 600));
    }
    if rng.chance(1, 2) {
        // user-defined curve: few short rising runs separated by long plateaus
        let mut inc: Vec<bool> = Vec::new();
        let pairs = rng.range(1, 3);
        for _ in 0..pairs {
            let gap = match rng.below(3) {
                0 => rng.range(20, 150),
                1 => rng.range(150, 600),
                _ => rng.range(400, 2500),
            };
            let up = rng.range(1, 4);
            let gap_first = rng.chance(3, 4);
            if gap_first {
                inc.extend(std::iter::repeat(false).take(gap as usize));
            }
            inc.extend(std::iter::repeat(true).take(up as usize));
            if !gap_first {
                inc.extend(std::iter::repeat(false).take(gap as usize));
            }
        }
        let sbf = SynthSbf::new(inc.clone());
        let text = rle(&inc);
        let fpv = hash_str(&text) ^ 0x52;
        fps.insert(fpv);
        acc.digest_add(fpv);
        for dem in demands {
            let claimed = guarded(|| du(sbf.service_time(s(dem))));
            let verdict = match claimed {
                None => Err("default service_time panicked".to_string()),
                Some(c) => is_least_inverse(&|t| Some(sbf.value(t)), dem, c).unwrap(),
            };
            if let Err(why) = verdict {
                acc.report(Report {
                    order: (k, dem),
                    key: "default service_time is not the least inverse (sparse user-defined curve)".into(),
                    summary: format!(
                        "sparse user-defined supply curve {}: default service_time({}) = {:?}: {}",
                        text, dem, claimed, why
                    ),
                    replay: format!(
                        "rtasim-replay 1\nproperty C09\nengine supply\nkind sparse-curve\nrle {}\nexpect demand={}\nnote seed={} item={}\n",
                        text, dem, root, k
                    ),
                });
                return;
            }
            acc.counters.inc("probe.sparse_inverse_exact");
        }
    } else {
        let p = match rng.below(3) {
            0 => rng.range(40, 200),
            1 => rng.range(200, 800),
            _ => rng.range(800, 3000),
        };
        let q = match rng.below(3) {
            0 => 1,
            1 => rng.range(1, 5.min(p)),
            _ => rng.range(1, (p / 4).max(1)),
        };
        // one item in three: an ordinary (short-period) reservation asked for thousands of
        // budgets' worth of service, at and next to exact multiples of the budget
        let huge = rng.chance(1, 3);
        let (p, q) = if huge {
            let p = rng.range(2, 40);
            (p, rng.range(1, p))
        } else {
            (p, q)
        };
        let mut demands = demands;
        if huge {
            acc.counters.inc("probe.demand_of_1000_to_5000_budgets");
            for _ in 0..6 {
                let base = rng.range(1000, 5000) * q;
                demands.push(match rng.below(4) {
                    0 | 1 => base,
                    2 => base + rng.below(q + 1),
                    _ => base - rng.below(q.min(3) + 1),
                });
            }
        }
        let sup = if rng.chance(1, 2) {
            SupDesc::Periodic(q, p)
        } else {
            SupDesc::Constrained(q, rng.range(q, p), p)
        };
        let fpv = hash_str(&format!("{}", sup)) ^ 0x53;
        fps.insert(fpv);
        acc.digest_add(fpv);
        let real = sup.build();
        for dem in demands {
            for which in ["default", "specialised"] {
                let claimed = guarded(|| {
                    if which == "default" {
                        du(OnlySbf(&*real).service_time(s(dem)))
                    } else {
                        du(real.service_time(s(dem)))
                    }
                });
                let ps = |t: u64| guarded(|| su(real.provided_service(d(t))));
                let verdict = match claimed {
                    None => Err("service_time panicked".to_string()),
                    Some(c) => match is_least_inverse(&ps, dem, c) {
                        Some(v) => v,
                        None => Err("provided_service panicked".to_string()),
                    },
                };
                if let Err(why) = verdict {
                    acc.report(Report {
                        order: (k, dem),
                        key: format!("{} service_time is not the least inverse of provided_service (sparse reservation)", which),
                        summary: format!(
                            "{}: {} service_time({}) = {:?}: {}",
                            sup, which, dem, claimed, why
                        ),
                        replay: format!(
                            "rtasim-replay 1\nproperty C09\nengine supply\nkind sparse-inverse\nsupply {}\nexpect demand={} which={}\nnote seed={} item={}\n",
                            sup, dem, which, root, k
                        ),
                    });
                    return;
                }
                acc.counters.inc("probe.sparse_inverse_exact");
            }
        }
    }
}

pub fn all_configs(max_p: u64) -> Vec<SupDesc> {
    let mut v = vec![SupDesc::Dedicated];
    for p in 1..=max_p {
        for q in 1..=p {
            v.push(SupDesc::Periodic(q, p));
            for dl in q..=p {
                v.push(SupDesc::Constrained(q, dl, p));
            }
        }
    }
    v
}

pub fn run_c09(opt: &Options) -> i32 {
    let t0 = std::time::Instant::now();
    let (max_p, extra, hist, tables) = if opt.thorough() {
        (20u64, opt.scaled(20_000), 1_200u64, opt.scaled(1_000_000))
    } else {
        (10u64, opt.scaled(1_500), 240u64, opt.scaled(60_000))
    };
    let mut configs = all_configs(max_p);
    // larger random configurations
    let mut crng = Rng::new(Rng::run_seed(opt.seed, "C09-configs", 0));
    for _ in 0..extra {
        let p = crng.range(max_p + 1, 40);
        let q = crng.range(1, p);
        if crng.chance(1, 3) {
            configs.push(SupDesc::Periodic(q, p));
        } else {
            configs.push(SupDesc::Constrained(q, crng.range(q, p), p));
        }
    }
    let fps = Distinct::new(28);
    let nontrivial = Distinct::new(28);
    let sh = SupplyShared {
        root: opt.seed,
        configs: &configs,
        histories_per_config: hist,
        fps: &fps,
        nontrivial: &nontrivial,
    };
    let n_cfg = configs.len() as u64;
    let root = opt.seed;
    // small periods: every placement, not a sample
    let exh_configs: Vec<SupDesc> = all_configs(if opt.thorough() { 5 } else { 4 })
        .into_iter()
        .filter(|c| *c != SupDesc::Dedicated)
        .collect();
    let n_exh = exh_configs.len() as u64;
    let n_syn = tables / 4;
    let n_sparse = tables / 40;
    let fin = |mut acc: Acc| -> i32 {
        let wall = t0.elapsed().as_secs_f64();
        let mut cov = Json::obj();
        cov.set("evaluations", Json::Int(acc.counters.get("runs") as i128));
        cov.set("distinct_nontrivial", Json::Int(nontrivial.count() as i128));
        cov.set(
            "rule",
            Json::str(
                "one evaluation = one simulated supply history (8 periods of a reservation server \
                 placing its budget per period early / late / early-then-late / at random / \
                 over-provisioned, or one static cyclic slot table); every window of every length up \
                 to 4P is metered and every demand up to 3Q is drained from every instant; the minimum \
                 over all histories of a configuration must equal provided_service, the maximum drain \
                 time must equal service_time (specialised and trait default). distinct = distinct \
                 (configuration, slot vector) fingerprints; non-trivial = budget < period",
            ),
        );
        cov.set("distinct_histories", Json::Int(fps.count() as i128));
        cov.set("configurations", Json::Int(n_cfg as i128));
        cov.set("sampled_all_configurations_up_to_period", Json::Int(max_p as i128));
        cov.set(
            "all_placements_enumerated_up_to_period",
            Json::Int(if opt.thorough() { 5 } else { 4 }),
        );
        cov.set("simulated_time_ticks", Json::Int(acc.counters.get("sim_ticks") as i128));
        cov.set(
            "components",
            components_json(
                &["response_time_analysis::supply::{Periodic, Constrained, Dedicated}::{provided_service, service_time} and the SupplyBound default service_time (real)"],
                &["reservation server with adversarial budget placement; static cyclic slot-table server (stubs, sim/src/supplysim.rs)"],
            ),
        );
        let out = finish(
            opt,
            &mut acc,
            wall,
            cov,
            &[
                "the reservation stub guarantees at least Q slots within the first D slots of every period and nothing else",
                "the minimum over placements is taken over the explored histories; the structured early-then-late placements attain the analytic worst case, random placements cover the placement space for small periods",
            ],
            &|r: &Report| (r.replay.clone(), r.summary.clone()),
        );
        out.exit_code
    };
    run_parallel_then(n_cfg + tables + n_exh + n_syn + n_sparse, opt.jobs, 60, |k, acc, note| {
        if k < n_cfg {
            supply_item(&sh, k, acc, note)
        } else if k < n_cfg + tables {
            table_item(root, k - n_cfg, acc, &fps)
        } else if k < n_cfg + tables + n_exh {
            let e = &exh_configs[(k - n_cfg - tables) as usize];
            note(&format!("C09 exhaustive {}", e));
            exhaustive_item(root, k, e, acc, &fps)
        } else if k < n_cfg + tables + n_exh + n_syn {
            synthetic_item(root, k - n_cfg - tables - n_exh, acc, &fps)
        } else {
            sparse_item(root, k - n_cfg - tables - n_exh - n_syn, acc, &fps)
        }
    }, &fin)
}

/// Replay of an `engine supply` file.
pub fn replay_supply(path: &str, text: &str) -> i32 {
    let get = |head: &str| -> Option<String> {
        text.lines()
            .find_map(|l| l.trim().strip_prefix(head).map(|r| r.trim().to_string()))
    };
    let kind = get("kind ").unwrap_or_default();
    let expect = get("expect ").unwrap_or_default();
    let field = |name: &str| -> Option<u64> {
        expect
            .split_whitespace()
            .find_map(|t| t.strip_prefix(&format!("{}=", name)).and_then(|v| v.parse().ok()))
    };
    let viol = |msg: String| -> i32 {
        println!("violation: {}", msg);
        println!("VIOLATION property=C09 replay={}", path);
        1
    };
    if kind == "synthetic" {
        let inc: Vec<bool> = get("curve ").unwrap_or_default().chars().map(|c| c == '1').collect();
        if inc.is_empty() || !inc.iter().any(|b| *b) {
            eprintln!("HARNESS-ERROR: bad curve");
            return 2;
        }
        let sbf = SynthSbf::new(inc);
        let dem = field("demand").unwrap_or(1);
        let claimed = match guarded(|| du(sbf.service_time(s(dem)))) {
            Some(v) => v,
            None => return viol("default service_time panicked".into()),
        };
        let mut t = 0u64;
        while sbf.value(t) < dem {
            t += 1;
        }
        if claimed != t {
            return viol(format!(
                "user-defined curve: default service_time({}) = {} but the least t is {}",
                dem, claimed, t
            ));
        }
        println!("replay: no violation");
        return 0;
    }
    if kind == "sparse-curve" {
        let inc = match un_rle(&get("rle ").unwrap_or_default()) {
            Some(v) if v.iter().any(|b| *b) => v,
            _ => {
                eprintln!("HARNESS-ERROR: bad run-length curve");
                return 2;
            }
        };
        let sbf = SynthSbf::new(inc);
        let dem = field("demand").unwrap_or(1);
        let claimed = match guarded(|| du(sbf.service_time(s(dem)))) {
            Some(v) => v,
            None => return viol("default service_time panicked".into()),
        };
        if let Some(Err(why)) = is_least_inverse(&|t| Some(sbf.value(t)), dem, claimed) {
            return viol(format!(
                "sparse user-defined curve: default service_time({}) = {}: {}",
                dem, claimed, why
            ));
        }
        println!("replay: no violation");
        return 0;
    }
    if kind == "sparse-inverse" {
        let sup = match crate::desc::parse_supply(&get("supply ").unwrap_or_default()) {
            Ok(sd) => sd,
            Err(e) => {
                eprintln!("HARNESS-ERROR: {}", e);
                return 2;
            }
        };
        let real = sup.build();
        let dem = field("demand").unwrap_or(1);
        let which_default = expect.contains("which=default");
        let claimed = guarded(|| {
            if which_default {
                du(OnlySbf(&*real).service_time(s(dem)))
            } else {
                du(real.service_time(s(dem)))
            }
        });
        let claimed = match claimed {
            Some(v) => v,
            None => return viol(format!("{}: service_time({}) panicked", sup, dem)),
        };
        let ps = |t: u64| guarded(|| su(real.provided_service(d(t))));
        match is_least_inverse(&ps, dem, claimed) {
            Some(Ok(())) => {}
            Some(Err(why)) => {
                return viol(format!(
                    "{}: {} service_time({}) = {}: {}",
                    sup,
                    if which_default { "default" } else { "specialised" },
                    dem,
                    claimed,
                    why
                ))
            }
            None => return viol(format!("{}: provided_service panicked", sup)),
        }
        println!("replay: no violation");
        return 0;
    }
    if kind == "table" {
        let table: Vec<bool> = get("table ").unwrap_or_default().chars().map(|c| c == '1').collect();
        if table.is_empty() || !table.iter().any(|b| *b) {
            eprintln!("HARNESS-ERROR: bad table");
            return 2;
        }
        let sbf = TableSbf::from_table(&table);
        let dem = field("demand").unwrap_or(1);
        let claimed = match guarded(|| du(sbf.service_time(s(dem)))) {
            Some(v) => v,
            None => return viol("default service_time panicked".into()),
        };
        let reps = (dem / sbf.ones + 4) as usize;
        let mut h = Vec::new();
        for _ in 0..reps {
            h.extend_from_slice(&table);
        }
        let cum = prefix(&h);
        let mut worst = 0;
        if dem > 0 {
            for st in 0..table.len() {
                let mut end = st;
                while cum[end] - cum[st] < dem {
                    end += 1;
                }
                worst = worst.max((end - st) as u64);
            }
        }
        if claimed != worst {
            return viol(format!(
                "static cyclic server: default service_time({}) = {} but worst drain is {}",
                dem, claimed, worst
            ));
        }
        println!("replay: no violation");
        return 0;
    }
    let sup = match crate::desc::parse_supply(&get("supply ").unwrap_or_default()) {
        Ok(sd) => sd,
        Err(e) => {
            eprintln!("HARNESS-ERROR: {}", e);
            return 2;
        }
    };
    let (q, dl, p) = sup.qdp();
    let hist: Vec<bool> = get("history ").unwrap_or_default().chars().map(|c| c == '1').collect();
    let max_delta = 4 * p;
    let max_dem = 3 * q;
    let (sbf, st, st_default) = match lib_values(&sup, max_delta + 1, max_dem) {
        Some(v) => v,
        None => return viol(format!("{}: library call panicked", sup)),
    };
    match kind.as_str() {
        "window" | "drain" | "drain-default" => {
            if !history_legal(&hist, q, dl, p) {
                eprintln!("HARNESS-ERROR: history in replay file is not legal for {}", sup);
                return 2;
            }
            let cum = prefix(&hist);
            let start = field("start").unwrap_or(0) as usize;
            if kind == "window" {
                let delta = field("delta").unwrap_or(1) as usize;
                if start + delta > hist.len() || delta as u64 > max_delta {
                    eprintln!("HARNESS-ERROR: window outside history");
                    return 2;
                }
                let v = cum[start + delta] - cum[start];
                if v < sbf[delta] {
                    return viol(format!(
                        "{}: window [{}, {}) delivers {} < provided_service({}) = {}",
                        sup, start, start + delta, v, delta, sbf[delta]
                    ));
                }
            } else {
                let dem = field("demand").unwrap_or(1);
                let table = if kind == "drain" { &st } else { &st_default };
                let mut end = start;
                while end < hist.len() && cum[end] - cum[start] < dem {
                    end += 1;
                }
                if cum[end] - cum[start] >= dem && (end - start) as u64 > table[dem as usize] {
                    return viol(format!(
                        "{}: demand {} injected at {} drains after {} > claimed {}",
                        sup, dem, start, end - start, table[dem as usize]
                    ));
                }
            }
            println!("replay: no violation");
            0
        }
        "exhaustive" => {
            let mut acc = Acc::default();
            let fps = Distinct::new(10);
            if p > 6 {
                eprintln!("HARNESS-ERROR: exhaustive replay only for periods <= 6");
                return 2;
            }
            exhaustive_item(0, 0, &sup, &mut acc, &fps);
            match acc.reports.first() {
                Some(r) => viol(r.summary.clone()),
                None => {
                    println!("replay: no violation");
                    0
                }
            }
        }
        "exact" | "drain-exact" | "drain-exact-default" => {
            // recompute the adversary's best over the structured worst-case placements
            let mut fired = [0u64; 4];
            let mut rng = Rng::new(0);
            let mut min_seen = vec![u64::MAX; max_delta as usize + 1];
            let mut drain_seen = vec![0u64; max_dem as usize + 1];
            for sw in 0..6usize {
                let h = gen_history(q, dl, p, 8, Placement::EarlyThenLate(sw), &mut rng, &mut fired);
                let mins = window_minima(&h, max_delta as usize);
                for x in 1..=max_delta as usize {
                    min_seen[x] = min_seen[x].min(mins[x].0);
                }
                for dem in 1..=max_dem {
                    if let Some((t, _)) = max_drain(&h, dem) {
                        drain_seen[dem as usize] = drain_seen[dem as usize].max(t);
                    }
                }
            }
            if kind == "exact" {
                let delta = field("delta").unwrap_or(1) as usize;
                if min_seen[delta] > sbf[delta] {
                    return viol(format!(
                        "{}: provided_service({}) = {} but the worst-case placement still delivers {}",
                        sup, delta, sbf[delta], min_seen[delta]
                    ));
                }
            } else {
                let dem = field("demand").unwrap_or(1) as usize;
                let table = if kind == "drain-exact" { &st } else { &st_default };
                if drain_seen[dem] < table[dem] {
                    return viol(format!(
                        "{}: service_time({}) = {} but the worst-case placement drains within {}",
                        sup, dem, table[dem], drain_seen[dem]
                    ));
                }
            }
            println!("replay: no violation");
            0
        }
        "twin" => {
            let tw = expect
                .split_whitespace()
                .find_map(|t| t.strip_prefix("twin=").map(|x| x.to_string()))
                .unwrap_or_default();
            match crate::desc::parse_supply(&tw).ok().and_then(|t| lib_values(&t, max_delta + 1, max_dem)) {
                Some((sbf2, st2, _)) => {
                    if sbf2 != sbf || st2 != st {
                        return viol(format!("{} and {} meter differently", sup, tw));
                    }
                    println!("replay: no violation");
                    0
                }
                None => {
                    eprintln!("HARNESS-ERROR: bad twin");
                    2
                }
            }
        }
        "shape" | "panic" => {
            let mut bad = sbf[0] != 0 || st[0] != 0 || st_default[0] != 0;
            for x in 1..sbf.len() {
                if sbf[x] < sbf[x - 1] || sbf[x] > sbf[x - 1] + 1 {
                    bad = true;
                }
            }
            if bad {
                return viol(format!("{}: provided_service is not 0 at 0 / monotone / 1-Lipschitz", sup));
            }
            println!("replay: no violation");
            0
        }
        other => {
            eprintln!("HARNESS-ERROR: unknown supply replay kind '{}'", other);
            2
        }
    }
}
