//! Schedule (adversary) generation for the uniprocessor kernel, the explicit
//! scenario description, its legality checks and its text form.

use std::fmt::Write as _;

use crate::analysis::{analyse_all, Outcome};
use crate::desc::{parse_arrival, ArrDesc};
use crate::release::{generate, Adm, RelStats, RelStrategy};
use crate::rng::Rng;
use crate::stats::Counters;
use crate::uni::{
    simulate, JobSpec, Policy, Preempt, SimConfig, SimResult, TaskDesc, TaskSet, TieRule, Variant,
};

pub const SCAN: u64 = 3400;
#[allow(dead_code)]
pub const KMAX: usize = 260;
pub const MAX_REL_HORIZON: u64 = 3000;

/// Per-task-set tables shared by all schedules of that task set.
pub struct Prep {
    pub adm: Vec<Adm>,
    pub dense: Vec<Vec<u64>>,
    /// length of the busy window of the synchronous dense all-WCET run (observed in the
    /// kernel, not taken from the library); `None` if it did not end within the horizon
    pub l_obs: Option<u64>,
}

pub fn prepare(ts: &TaskSet) -> Option<Prep> {
    let kmax = ts.kmax();
    let built = crate::analysis::guarded(|| {
        let mut adm = Vec::new();
        for t in &ts.tasks {
            let ab = t.arr.build();
            adm.push(Adm::tabulate(&*ab, SCAN, kmax));
        }
        adm
    })?;
    let dense: Vec<Vec<u64>> = built
        .iter()
        .map(|a| a.dense(MAX_REL_HORIZON, kmax))
        .collect();
    // observed busy window of the synchronous dense run
    let mut jobs = Vec::new();
    for (i, dn) in dense.iter().enumerate() {
        for r in dn {
            jobs.push(JobSpec {
                task: i,
                release: *r,
                chunks: vec![ts.tasks[i].wcet as u32],
            });
        }
    }
    jobs.sort_by(|a, b| (a.release, a.task).cmp(&(b.release, b.task)));
    let mut t = 0u64;
    let mut l_obs = None;
    let mut backlog = 0u64;
    let mut idx = 0;
    while idx < jobs.len() || backlog > 0 {
        while idx < jobs.len() && jobs[idx].release <= t {
            backlog += jobs[idx].cost();
            idx += 1;
        }
        if backlog == 0 {
            l_obs = Some(t);
            break;
        }
        // run until the next release or until the backlog is gone
        let next = if idx < jobs.len() {
            jobs[idx].release
        } else {
            u64::MAX
        };
        let run = backlog.min(next - t);
        t += run;
        backlog -= run;
        if backlog == 0 && (idx >= jobs.len() || jobs[idx].release > t) {
            l_obs = Some(t);
            break;
        }
        if t > MAX_REL_HORIZON {
            break;
        }
    }
    // a dense sequence that was cut off by the job cap does not describe the task beyond its
    // last release: a busy window that extends past that point was not observed
    if let Some(l) = l_obs {
        for dn in &dense {
            if dn.len() >= kmax && *dn.last().unwrap() < l {
                l_obs = None;
            }
        }
    }
    // independent re-check of the dense sequences (schedules that reuse a shifted prefix of one
    // are not re-validated pair by pair, see `is_shifted_dense_prefix`)
    for (i, dn) in dense.iter().enumerate() {
        if let Err(e) = built[i].validate(dn) {
            eprintln!(
                "HARNESS-ERROR: dense release sequence of {} is not admissible: {}",
                ts.tasks[i].arr, e
            );
            std::process::exit(2);
        }
    }
    Some(Prep {
        adm: built,
        dense,
        l_obs,
    })
}

/// `rel` is a prefix of `dense` shifted by a constant (admissible whenever `dense` is: every pair
/// constraint of a prefix is a pair constraint of the whole, and the constraints only involve
/// differences of release times).
pub fn is_shifted_dense_prefix(rel: &[u64], dense: &[u64]) -> bool {
    if rel.is_empty() {
        return true;
    }
    if rel.len() > dense.len() || rel[0] < dense[0] {
        return false;
    }
    let shift = rel[0] - dense[0];
    rel.iter().zip(dense.iter()).all(|(r, dn)| *r == *dn + shift)
}

#[derive(Clone, Debug, PartialEq, Eq)]
pub struct Scenario {
    pub variant: Variant,
    pub ts: TaskSet,
    pub repr: u8,
    pub jobs: Vec<JobSpec>,
    pub tie: TieRule,
    pub quantum: u32,
    pub time_cap: u64,
}

#[derive(Clone, Copy, Debug, PartialEq, Eq)]
pub enum ExecStrat {
    Wcet,
    Uniform,
    MostlyWcet,
    Alternating,
}

#[derive(Clone, Copy, Debug, PartialEq, Eq)]
pub enum NpPlace {
    AllMax,
    Random,
    NpAtEnd,
    NpAtStart,
}

fn job_chunks(
    task: &TaskDesc,
    pre: Preempt,
    exec: ExecStrat,
    np: NpPlace,
    k: usize,
    rng: &mut Rng,
    c: &mut Counters,
) -> Vec<u32> {
    let full = match exec {
        ExecStrat::Wcet => true,
        ExecStrat::Uniform => false,
        ExecStrat::MostlyWcet => !rng.chance(1, 5),
        ExecStrat::Alternating => k % 2 == 0,
    };
    match pre {
        Preempt::Full | Preempt::Non => {
            let cost = if full {
                task.wcet
            } else {
                rng.range(1, task.wcet)
            };
            if cost < task.wcet {
                c.inc("fault.early_completion");
            }
            if pre == Preempt::Non && cost > 1 {
                c.inc("fault.np_region_placed");
            }
            vec![cost as u32]
        }
        Preempt::Limited => {
            // i-th job segment bounded by the i-th task segment, at least one unit each
            let mut out = Vec::with_capacity(task.segs.len());
            let mut short = false;
            for sg in &task.segs {
                let len = if full { *sg } else { rng.range(1, *sg) };
                if len < *sg {
                    short = true;
                }
                out.push(len as u32);
            }
            if short {
                c.inc("fault.lp_segment_shortened");
                c.inc("fault.early_completion");
            }
            if out.iter().any(|x| *x > 1) {
                c.inc("fault.np_region_placed");
            }
            out
        }
        Preempt::Floating => {
            let cost = if full {
                task.wcet
            } else {
                rng.range(1, task.wcet)
            };
            if cost < task.wcet {
                c.inc("fault.early_completion");
            }
            let m = task.max_np.max(1);
            let mut out: Vec<u32> = Vec::new();
            let mut left = cost;
            match np {
                NpPlace::AllMax => {
                    while left > 0 {
                        let x = left.min(m);
                        out.push(x as u32);
                        left -= x;
                    }
                }
                NpPlace::Random => {
                    while left > 0 {
                        let x = rng.range(1, left.min(m));
                        out.push(x as u32);
                        left -= x;
                    }
                }
                NpPlace::NpAtEnd => {
                    let last = left.min(m);
                    for _ in 0..(left - last) {
                        out.push(1);
                    }
                    out.push(last as u32);
                }
                NpPlace::NpAtStart => {
                    let first = left.min(m);
                    out.push(first as u32);
                    for _ in 0..(left - first) {
                        out.push(1);
                    }
                }
            }
            if out.iter().any(|x| *x > 1) {
                c.inc("fault.np_region_placed");
            }
            out
        }
    }
}

/// Is the execution structure of `job` legal for `task` under `pre`?
pub fn chunks_legal(task: &TaskDesc, pre: Preempt, chunks: &[u32]) -> Result<(), String> {
    let cost: u64 = chunks.iter().map(|x| *x as u64).sum();
    if chunks.is_empty() || chunks.iter().any(|x| *x == 0) {
        return Err("empty chunk".into());
    }
    if cost < 1 || cost > task.wcet {
        return Err(format!("cost {} outside [1, {}]", cost, task.wcet));
    }
    match pre {
        Preempt::Full | Preempt::Non => {
            if chunks.len() != 1 {
                return Err("expected a single chunk".into());
            }
        }
        Preempt::Limited => {
            if chunks.len() != task.segs.len() {
                return Err(format!(
                    "{} segments, layout has {}",
                    chunks.len(),
                    task.segs.len()
                ));
            }
            for (c, sg) in chunks.iter().zip(task.segs.iter()) {
                if *c as u64 > *sg {
                    return Err(format!("segment {} longer than layout segment {}", c, sg));
                }
            }
        }
        Preempt::Floating => {
            if chunks.iter().any(|c| *c as u64 > task.max_np) {
                return Err(format!("chunk longer than max_np {}", task.max_np));
            }
        }
    }
    Ok(())
}

/// A structured (non-random) schedule request: the constructive worst-case candidate for
/// `victim` — optional aligned blocker, everyone else dense and synchronous, WCET execution,
/// longest non-preemptive regions, the victim loses every tie, optionally anchored at `anchor`.
#[derive(Clone, Copy, Debug)]
pub struct Directive {
    pub victim: usize,
    pub anchor: Option<u64>,
}

/// Offset (from its release) at which a job of `task` running alone enters its longest
/// non-preemptive chunk.
fn lead_to_longest_chunk(task: &TaskDesc, pre: Preempt) -> u64 {
    match pre {
        Preempt::Limited => {
            let m = task.max_seg();
            let idx = task.segs.iter().position(|x| *x == m).unwrap_or(0);
            task.segs[..idx].iter().sum()
        }
        _ => 0,
    }
}

/// The deadline-shifted / own release offsets at which the victim's bound can be attained.
pub fn anchor_candidates(ts: &TaskSet, prep: &Prep, policy: Policy, victim: usize) -> Vec<u64> {
    let n = ts.tasks.len();
    let l = prep.l_obs.unwrap_or(400).max(4);
    let mut cand: Vec<u64> = Vec::new();
    for r in prep.dense[victim].iter().take(40) {
        if *r <= l {
            cand.push(*r);
        }
    }
    if policy == Policy::Edf {
        let dv = ts.tasks[victim].deadline;
        for o in 0..n {
            if o == victim {
                continue;
            }
            let d_o = ts.tasks[o].deadline;
            for r in prep.dense[o].iter().take(40) {
                let a = (*r + d_o).saturating_sub(dv);
                if a <= l {
                    cand.push(a);
                }
            }
        }
    }
    cand.sort();
    cand.dedup();
    cand
}

pub struct SchedOut {
    pub sc: Scenario,
    pub pattern: &'static str,
}

/// Draw one schedule (release times, execution structure, tie rule) for `ts` under `variant`.
pub fn gen_schedule(
    ts: &TaskSet,
    prep: &Prep,
    variant: Variant,
    repr: u8,
    rng: &mut Rng,
    c: &mut Counters,
    directive: Option<Directive>,
) -> SchedOut {
    let n = ts.tasks.len();
    let pre = variant.preempt();
    let policy = variant.policy();
    let victim = match directive {
        Some(dv) => dv.victim,
        None => rng.index(n),
    };
    let l = prep.l_obs.unwrap_or(400).max(4);
    let max_t: u64 = ts
        .tasks
        .iter()
        .map(|t| t.deadline.max(t.wcet))
        .max()
        .unwrap_or(1);
    let horizon = match rng.below(4) {
        0 => l + rng.below(max_t + 1),
        1 => 2 * l + max_t,
        2 => rng.range(l / 2 + 1, 3 * l + max_t),
        _ => l + 3 * max_t + rng.below(200),
    }
    .min(MAX_REL_HORIZON);

    let horizon = if directive.is_some() {
        (2 * l + 2 * max_t + 20).min(MAX_REL_HORIZON)
    } else {
        horizon
    };
    let exec = *rng.pick(&[
        ExecStrat::Wcet,
        ExecStrat::Wcet,
        ExecStrat::Wcet,
        ExecStrat::MostlyWcet,
        ExecStrat::Uniform,
        ExecStrat::Alternating,
    ]);
    let np = *rng.pick(&[
        NpPlace::AllMax,
        NpPlace::AllMax,
        NpPlace::Random,
        NpPlace::NpAtEnd,
        NpPlace::NpAtStart,
    ]);

    let (exec, np) = if directive.is_some() {
        (ExecStrat::Wcet, NpPlace::AllMax)
    } else {
        (exec, np)
    };
    // possible blockers of the victim
    let dir_anchor = directive.and_then(|dv| dv.anchor).unwrap_or(0);
    let blockers: Vec<usize> = (0..n)
        .filter(|j| {
            *j != victim
                && prep.adm[*j].max_events() > 0
                && match policy {
                    Policy::Fp => ts.tasks[*j].prio < ts.tasks[victim].prio,
                    Policy::Edf => ts.tasks[*j].deadline > ts.tasks[victim].deadline + dir_anchor,
                    Policy::Fifo => false,
                }
        })
        .collect();

    let mut pattern = match rng.weighted(&[25, 12, 20, 20, 10, 6, 7]) {
        0 => "sync",
        1 => "phases",
        2 => "blocker",
        3 => "anchored",
        4 => "delays",
        5 => "stretch",
        _ => "mixed",
    };
    if pattern == "blocker" && (blockers.is_empty() || pre == Preempt::Full) {
        pattern = if rng.chance(1, 2) { "sync" } else { "anchored" };
    }
    if directive.is_some() {
        pattern = "witness";
    }

    // anchor candidates for the victim: its own dense release times and (EDF) the
    // deadline-shifted release times of the other tasks
    let pick_anchor = |rng: &mut Rng| -> u64 {
        let mut cand: Vec<u64> = Vec::new();
        for r in prep.dense[victim].iter().take(40) {
            if *r <= l {
                cand.push(*r);
            }
        }
        if policy == Policy::Edf {
            let dv = ts.tasks[victim].deadline;
            for o in 0..n {
                if o == victim {
                    continue;
                }
                let d_o = ts.tasks[o].deadline;
                for r in prep.dense[o].iter().take(40) {
                    let a = (*r + d_o).saturating_sub(dv);
                    if a <= l + max_t {
                        cand.push(a);
                        if a > 0 && rng.chance(1, 4) {
                            cand.push(a - 1);
                        }
                    }
                }
            }
        }
        if cand.is_empty() || rng.chance(1, 6) {
            rng.below(l + 1)
        } else {
            *rng.pick(&cand)
        }
    };

    let mut strategies: Vec<RelStrategy> = Vec::with_capacity(n);
    let blocker = if pattern == "blocker" {
        Some(*rng.pick(&blockers))
    } else if pattern == "witness" && pre != Preempt::Full && !blockers.is_empty() {
        // the candidate with the longest non-preemptive chunk
        blockers
            .iter()
            .copied()
            .max_by_key(|j| (ts.tasks[*j].max_np_under(pre), *j))
    } else {
        None
    };
    let witness_phase = match blocker {
        Some(b) if pattern == "witness" => lead_to_longest_chunk(&ts.tasks[b], pre) + 1,
        _ => 0,
    };
    let anchor = if pattern == "anchored" || (pattern == "blocker" && rng.chance(1, 2)) {
        Some(pick_anchor(rng))
    } else {
        None
    };
    for i in 0..n {
        let period_guess = prep.adm[i].dist(2).max(1).min(200);
        let st = match pattern {
            "witness" => {
                if Some(i) == blocker {
                    c.inc("fault.blocker_aligned");
                    RelStrategy::Single { at: 0 }
                } else if i == victim && directive.unwrap().anchor.is_some() {
                    RelStrategy::Anchored {
                        anchor: witness_phase + directive.unwrap().anchor.unwrap(),
                    }
                } else {
                    RelStrategy::Dense {
                        phase: witness_phase,
                    }
                }
            }
            "sync" => RelStrategy::Dense { phase: 0 },
            "phases" => RelStrategy::Dense {
                phase: rng.below(max_t + 1),
            },
            "blocker" => {
                if Some(i) == blocker {
                    c.inc("fault.blocker_aligned");
                    if rng.chance(1, 2) {
                        RelStrategy::Single { at: 0 }
                    } else {
                        RelStrategy::Dense { phase: 0 }
                    }
                } else if i == victim && anchor.is_some() {
                    RelStrategy::Anchored {
                        anchor: 1 + anchor.unwrap(),
                    }
                } else {
                    RelStrategy::Dense { phase: 1 }
                }
            }
            "anchored" => {
                if i == victim {
                    RelStrategy::Anchored {
                        anchor: anchor.unwrap(),
                    }
                } else {
                    RelStrategy::Dense { phase: 0 }
                }
            }
            "delays" => RelStrategy::RandomDelay {
                phase: rng.below(period_guess + 1),
                p: rng.range(5, 50),
                max: rng.range(1, period_guess),
            },
            "stretch" => RelStrategy::Stretch {
                phase: 0,
                p: rng.range(3, 20),
                gap: l + rng.below(max_t + 1) + 2,
            },
            _ => match rng.below(5) {
                0 => RelStrategy::Dense { phase: 0 },
                1 => RelStrategy::Dense {
                    phase: rng.below(max_t + 1),
                },
                2 => RelStrategy::RandomDelay {
                    phase: rng.below(period_guess + 1),
                    p: rng.range(5, 50),
                    max: rng.range(1, period_guess),
                },
                3 => RelStrategy::Stretch {
                    phase: 0,
                    p: rng.range(3, 20),
                    gap: l + 2,
                },
                _ => RelStrategy::Anchored {
                    anchor: rng.below(l + 1),
                },
            },
        };
        strategies.push(st);
    }

    let mut jobs: Vec<JobSpec> = Vec::new();
    let mut rs = RelStats::default();
    for i in 0..n {
        // `Dense { phase }` is the tabulated dense sequence shifted by `phase` (the constraints
        // are translation-invariant); reuse it instead of recomputing it in O(n^2)
        let rel = match strategies[i] {
            RelStrategy::Dense { phase } => {
                let rel: Vec<u64> = prep.dense[i]
                    .iter()
                    .map(|r| *r + phase)
                    .take_while(|r| *r <= horizon)
                    .collect();
                for w in rel.windows(2) {
                    if w[0] == w[1] {
                        rs.simultaneous += 1;
                    }
                }
                rel
            }
            _ => generate(&prep.adm[i], &strategies[i], horizon, ts.kmax(), rng, &mut rs),
        };
        if matches!(strategies[i], RelStrategy::Dense { phase: 0 }) && !rel.is_empty() {
            c.inc("fault.synchronous_burst");
        }
        for (k, r) in rel.iter().enumerate() {
            let chunks = job_chunks(&ts.tasks[i], pre, exec, np, k, rng, c);
            jobs.push(JobSpec {
                task: i,
                release: *r,
                chunks,
            });
        }
    }
    c.add("fault.jitter_delay", rs.delayed);
    c.add("fault.sporadic_stretch", rs.stretched);
    c.add("fault.simultaneous_release", rs.simultaneous);
    jobs.sort_by(|a, b| (a.release, a.task).cmp(&(b.release, b.task)));

    let tie_draw = if directive.is_some() { 4 } else { rng.below(5) };
    let tie = match tie_draw {
        0 => TieRule::First,
        1 => TieRule::Last,
        2 => TieRule::Hashed {
            salt: rng.next_u64(),
        },
        _ => TieRule::VictimLoses {
            victim,
            salt: rng.next_u64(),
        },
    };
    let quantum = if pre == Preempt::Full && directive.is_some() {
        1
    } else if pre == Preempt::Full {
        match rng.below(4) {
            0 => 1,
            1 => rng.range(1, 3) as u32,
            _ => 0,
        }
    } else {
        0
    };
    let total: u64 = jobs.iter().map(|j| j.cost()).sum();
    let last_rel = jobs.last().map(|j| j.release).unwrap_or(0);
    SchedOut {
        sc: Scenario {
            variant,
            ts: ts.clone(),
            repr,
            jobs,
            tie,
            quantum,
            time_cap: last_rel + total + 2,
        },
        pattern,
    }
}

/// Run the kernel on an explicit scenario with the given bounds.
pub fn run_scenario(sc: &Scenario, bounds: &[Option<u64>], record_ties: bool) -> SimResult {
    let prio: Vec<u32> = sc.ts.tasks.iter().map(|t| t.prio).collect();
    let dl: Vec<u64> = sc.ts.tasks.iter().map(|t| t.deadline).collect();
    let cfg = SimConfig {
        policy: sc.variant.policy(),
        preempt: sc.variant.preempt(),
        prio: &prio,
        deadline: &dl,
        bounds,
        quantum: sc.quantum,
        tie: &sc.tie,
        time_cap: sc.time_cap,
        stop_at_violation: true,
        record_ties,
    };
    simulate(&cfg, sc.ts.tasks.len(), &sc.jobs)
}

/// Legality of an explicit scenario: releases admissible for the library's own curves
/// (re-tabulated here), execution structure legal for the variant.
pub fn scenario_legal(sc: &Scenario) -> Result<(), String> {
    let pre = sc.variant.preempt();
    let n = sc.ts.tasks.len();
    let mut per_task: Vec<Vec<u64>> = vec![Vec::new(); n];
    let mut prev = (0u64, 0usize);
    for (idx, j) in sc.jobs.iter().enumerate() {
        if j.task >= n {
            return Err(format!("job {} refers to task {}", idx, j.task));
        }
        if idx > 0 && (j.release, j.task) < prev {
            return Err("jobs not sorted by (release, task)".into());
        }
        prev = (j.release, j.task);
        chunks_legal(&sc.ts.tasks[j.task], pre, &j.chunks)
            .map_err(|e| format!("job {} of task {}: {}", idx, j.task, e))?;
        per_task[j.task].push(j.release);
    }
    for i in 0..n {
        if per_task[i].is_empty() {
            continue;
        }
        let span = per_task[i].last().unwrap() - per_task[i][0] + 2;
        let arr = sc.ts.tasks[i].arr.clone();
        let cnt = per_task[i].len();
        let adm = crate::analysis::guarded(move || {
            let ab = arr.build();
            Adm::tabulate(&*ab, span, cnt + 1)
        })
        .ok_or_else(|| format!("arrival model of task {} panicked while tabulating", i))?;
        adm.validate(&per_task[i])
            .map_err(|e| format!("task {}: {}", i, e))?;
    }
    Ok(())
}

pub fn bounds_of(sc: &Scenario) -> Vec<Outcome> {
    analyse_all(&sc.ts, sc.variant, sc.repr)
}

// ---------------------------------------------------------------------------
// text form

pub fn task_line(i: usize, t: &TaskDesc) -> String {
    format!("task {} {}", i, t)
}

pub fn parse_task_line(rest: &str) -> Result<TaskDesc, String> {
    let mut arr: Option<ArrDesc> = None;
    let mut wcet = None;
    let mut prio = None;
    let mut deadline = None;
    let mut segs: Option<Vec<u64>> = None;
    let mut maxnp = None;
    for tok in rest.split_whitespace() {
        let (k, v) = tok
            .split_once('=')
            .ok_or_else(|| format!("bad token '{}'", tok))?;
        match k {
            "arr" => arr = Some(parse_arrival(v)?),
            "wcet" => wcet = Some(v.parse::<u64>().map_err(|e| e.to_string())?),
            "prio" => prio = Some(v.parse::<u32>().map_err(|e| e.to_string())?),
            "deadline" => deadline = Some(v.parse::<u64>().map_err(|e| e.to_string())?),
            "segs" => {
                segs = Some(
                    v.split('+')
                        .map(|x| x.parse::<u64>().map_err(|e| e.to_string()))
                        .collect::<Result<Vec<u64>, String>>()?,
                )
            }
            "maxnp" => maxnp = Some(v.parse::<u64>().map_err(|e| e.to_string())?),
            _ => return Err(format!("unknown task attribute '{}'", k)),
        }
    }
    Ok(TaskDesc {
        arr: arr.ok_or("task without arr")?,
        wcet: wcet.ok_or("task without wcet")?,
        prio: prio.unwrap_or(0),
        deadline: deadline.unwrap_or(1),
        segs: segs.ok_or("task without segs")?,
        max_np: maxnp.unwrap_or(1),
    })
}

pub fn tie_text(t: &TieRule) -> String {
    match t {
        TieRule::First => "first".into(),
        TieRule::Last => "last".into(),
        TieRule::Hashed { salt } => format!("hashed {}", salt),
        TieRule::VictimLoses { victim, salt } => format!("victim {} {}", victim, salt),
        TieRule::Script(v) => {
            let parts: Vec<String> = v.iter().map(|x| x.to_string()).collect();
            format!("script {}", parts.join(" "))
        }
    }
}

pub fn parse_tie(rest: &str) -> Result<TieRule, String> {
    let toks: Vec<&str> = rest.split_whitespace().collect();
    let num = |s: &str| s.parse::<u64>().map_err(|e| format!("{}: '{}'", e, s));
    match toks.first().copied() {
        Some("first") => Ok(TieRule::First),
        Some("last") => Ok(TieRule::Last),
        Some("hashed") => Ok(TieRule::Hashed {
            salt: num(toks.get(1).ok_or("hashed needs a salt")?)?,
        }),
        Some("victim") => Ok(TieRule::VictimLoses {
            victim: num(toks.get(1).ok_or("victim needs an index")?)? as usize,
            salt: num(toks.get(2).ok_or("victim needs a salt")?)?,
        }),
        Some("script") => Ok(TieRule::Script(
            toks[1..]
                .iter()
                .map(|x| num(x).map(|v| v as u16))
                .collect::<Result<Vec<u16>, String>>()?,
        )),
        other => Err(format!("bad tie rule {:?}", other)),
    }
}

impl Scenario {
    /// Body of the replay file (without header lines that name the property).
    pub fn to_text(&self) -> String {
        let mut out = String::new();
        let _ = writeln!(out, "variant {}", self.variant);
        let _ = writeln!(out, "repr {}", self.repr);
        let _ = writeln!(out, "limit {}", self.ts.limit);
        for (i, t) in self.ts.tasks.iter().enumerate() {
            let _ = writeln!(out, "{}", task_line(i, t));
        }
        let _ = writeln!(out, "quantum {}", self.quantum);
        let _ = writeln!(out, "timecap {}", self.time_cap);
        let _ = writeln!(out, "tie {}", tie_text(&self.tie));
        for j in &self.jobs {
            let ch: Vec<String> = j.chunks.iter().map(|x| x.to_string()).collect();
            let _ = writeln!(out, "job {} {} : {}", j.task, j.release, ch.join(" "));
        }
        out
    }

    pub fn from_lines<'a>(lines: impl Iterator<Item = &'a str>) -> Result<Scenario, String> {
        let mut variant = None;
        let mut repr = 0u8;
        let mut limit = None;
        let mut tasks: Vec<TaskDesc> = Vec::new();
        let mut quantum = 0u32;
        let mut time_cap = None;
        let mut tie = TieRule::First;
        let mut jobs = Vec::new();
        for line in lines {
            let line = line.trim();
            if line.is_empty() || line.starts_with('#') {
                continue;
            }
            let (head, rest) = line.split_once(' ').unwrap_or((line, ""));
            match head {
                "variant" => {
                    variant = Some(
                        Variant::from_name(rest.trim())
                            .ok_or_else(|| format!("unknown variant '{}'", rest))?,
                    )
                }
                "repr" => repr = rest.trim().parse::<u8>().map_err(|e| e.to_string())?,
                "limit" => limit = Some(rest.trim().parse::<u64>().map_err(|e| e.to_string())?),
                "task" => {
                    let (idx, r2) = rest
                        .trim()
                        .split_once(' ')
                        .ok_or("task line without attributes")?;
                    let idx: usize = idx.parse().map_err(|_| "bad task index")?;
                    if idx != tasks.len() {
                        return Err("task indices must be consecutive".into());
                    }
                    tasks.push(parse_task_line(r2)?);
                }
                "quantum" => quantum = rest.trim().parse::<u32>().map_err(|e| e.to_string())?,
                "timecap" => {
                    time_cap = Some(rest.trim().parse::<u64>().map_err(|e| e.to_string())?)
                }
                "tie" => tie = parse_tie(rest)?,
                "job" => {
                    let (a, b) = rest.split_once(':').ok_or("job line without ':'")?;
                    let hv: Vec<&str> = a.split_whitespace().collect();
                    if hv.len() != 2 {
                        return Err("job line needs '<task> <release> : chunks'".into());
                    }
                    let task: usize = hv[0].parse().map_err(|_| "bad job task")?;
                    let release: u64 = hv[1].parse().map_err(|_| "bad job release")?;
                    let chunks = b
                        .split_whitespace()
                        .map(|x| x.parse::<u32>().map_err(|e| e.to_string()))
                        .collect::<Result<Vec<u32>, String>>()?;
                    jobs.push(JobSpec {
                        task,
                        release,
                        chunks,
                    });
                }
                // lines owned by the replay wrapper
                "rtasim-replay" | "property" | "engine" | "expect" | "seed" | "entity"
                | "note" => {}
                other => return Err(format!("unknown replay line '{}'", other)),
            }
        }
        let total: u64 = jobs.iter().map(|j: &JobSpec| j.cost()).sum();
        let last_rel = jobs.last().map(|j| j.release).unwrap_or(0);
        Ok(Scenario {
            variant: variant.ok_or("replay file without variant")?,
            ts: TaskSet {
                tasks,
                limit: limit.ok_or("replay file without limit")?,
            },
            repr,
            jobs,
            tie,
            quantum,
            time_cap: time_cap.unwrap_or(last_rel + total + 2),
        })
    }
}
