//! C14: job-cost models against recorded job-cost histories, and the caching variant under
//! interleaved query histories.

use std::cell::Cell;

use response_time_analysis::time::Service;
use response_time_analysis::wcet::{self, JobCostModel};

use crate::analysis::guarded;
use crate::desc::{s, su, CostDesc};
use crate::harness::{components_json, finish, Options};
use crate::json::Json;
use crate::rng::{hash_str, Fingerprint, Rng};
use crate::stats::{run_parallel_then, Acc, Distinct, Report};

/// Execution-time source: a frame pattern with per-job variation and occasional spikes;
/// zero-cost jobs allowed.
pub fn cost_trace(rng: &mut Rng, n: usize, stats: &mut [u64; 4]) -> Vec<u64> {
    let frames = rng.range(1, 6) as usize;
    let hi = rng.range(1, 14);
    let pattern: Vec<u64> = (0..frames).map(|_| rng.range(0, hi)).collect();
    let variation = rng.below(4);
    let spike_p = *rng.pick(&[0u64, 0, 3, 10]);
    let mut out = Vec::with_capacity(n);
    for k in 0..n {
        let base = pattern[k % frames];
        let mut c = base.saturating_sub(rng.below(variation + 1));
        if spike_p > 0 && rng.chance(spike_p, 100) {
            c = base + rng.range(1, hi);
            stats[0] += 1;
        }
        if c == 0 {
            stats[1] += 1;
        }
        if c < base {
            stats[2] += 1;
        }
        out.push(c);
    }
    out
}

/// Harness-side maximum cost of n consecutive jobs of a trace.
pub fn max_run_cost(trace: &[u64], n: usize) -> u64 {
    if n == 0 || n > trace.len() {
        return 0;
    }
    let mut cum = vec![0u64; trace.len() + 1];
    for i in 0..trace.len() {
        cum[i + 1] = cum[i] + trace[i];
    }
    (0..=(trace.len() - n))
        .map(|i| cum[i + n] - cum[i])
        .max()
        .unwrap_or(0)
}

fn nums(v: &[u64]) -> String {
    v.iter().map(|x| x.to_string()).collect::<Vec<_>>().join(" ")
}

fn replay_text(kind: &str, body: &str, expect: &str, note: &str) -> String {
    format!(
        "rtasim-replay 1\nproperty C14\nengine wcet\nkind {}\n{}expect {}\nnote {}\n",
        kind, body, expect, note
    )
}

#[derive(Debug)]
pub enum TraceFail {
    Panic,
    Undercounts { n: usize, start: usize, sum: u64, claimed: u64, extrapolated: bool },
    Rises { n: usize, before: u64, after: u64, within: bool },
}

/// Trace → `wcet::Curve::from_trace(trace, max_n)` → every run of every length; then
/// `extrapolate(m)`: never raises, still dominates.
pub fn check_trace(trace: &[u64], max_n: usize, extrap_to: usize) -> Result<(), TraceFail> {
    let tr = trace.to_vec();
    let res = guarded(move || -> Result<(), TraceFail> {
        let c = wcet::Curve::from_trace(tr.iter().map(|x| s(*x)), max_n);
        let mut cum = vec![0u64; tr.len() + 1];
        for i in 0..tr.len() {
            cum[i + 1] = cum[i] + tr[i];
        }
        let dominate = |model: &wcet::Curve, extrapolated: bool| -> Result<(), TraceFail> {
            for n in 1..=tr.len() {
                let claimed = su(model.cost_of_jobs(n));
                for start in 0..=(tr.len() - n) {
                    let sum = cum[start + n] - cum[start];
                    if sum > claimed {
                        return Err(TraceFail::Undercounts { n, start, sum, claimed, extrapolated });
                    }
                }
            }
            Ok(())
        };
        dominate(&c, false)?;
        let mut e = c.clone();
        e.extrapolate(extrap_to);
        // the extended range: the library extends to `extrap_to - 1` entries if it can extrapolate
        let covered = if max_n.min(tr.len()) >= 3 {
            extrap_to.saturating_sub(1).max(max_n.min(tr.len()))
        } else {
            max_n.min(tr.len())
        };
        for n in 0..=(tr.len().max(extrap_to) + 8) {
            let before = su(c.cost_of_jobs(n));
            let after = su(e.cost_of_jobs(n));
            if after > before {
                return Err(TraceFail::Rises { n, before, after, within: n <= covered });
            }
        }
        dominate(&e, true)
    });
    match res {
        None => Err(TraceFail::Panic),
        Some(r) => r,
    }
}

// --- ride-along invariants of every model ----------------------------------

#[derive(Debug)]
pub enum ShapeFail {
    Panic,
    Msg(String),
}

pub fn check_shape(desc: &CostDesc, upto: usize) -> Result<(), ShapeFail> {
    let dsc = desc.clone();
    let res = guarded(move || -> Result<(), ShapeFail> {
        let m = dsc.build();
        if su(m.cost_of_jobs(0)) != 0 {
            return Err(ShapeFail::Msg(format!("cost_of_jobs(0) = {}", su(m.cost_of_jobs(0)))));
        }
        let items: Vec<u64> = m.job_cost_iter().take(upto).map(su).collect();
        let mut sum = 0u64;
        let mut prev = 0u64;
        for n in 1..=upto {
            sum += items[n - 1];
            let c = su(m.cost_of_jobs(n));
            if c < prev {
                return Err(ShapeFail::Msg(format!("cost_of_jobs decreases at n={} ({} -> {})", n, prev, c)));
            }
            if c != sum {
                return Err(ShapeFail::Msg(format!(
                    "cost_of_jobs({}) = {} but the first {} items of job_cost_iter sum to {}",
                    n, c, n, sum
                )));
            }
            let lw = su(m.least_wcet(n));
            if let Some(small) = items[..n].iter().find(|x| **x < lw) {
                return Err(ShapeFail::Msg(format!(
                    "least_wcet({}) = {} but job_cost_iter yields {} among its first {} items",
                    n, lw, small, n
                )));
            }
            prev = c;
        }
        Ok(())
    });
    match res {
        None => Err(ShapeFail::Panic),
        Some(r) => r,
    }
}

// --- query clients on the caching variant ----------------------------------

#[derive(Clone, Debug, PartialEq, Eq)]
pub enum Op {
    Cost(usize, usize),
    Least(usize, usize),
    Open(usize),
    Next(usize),
    Drop(usize),
    /// create handle h now (a clone made after the cache may already have been extended)
    Make(usize),
}

impl Op {
    fn text(&self) -> String {
        match self {
            Op::Cost(h, n) => format!("cost {} {}", h, n),
            Op::Least(h, n) => format!("least {} {}", h, n),
            Op::Open(h) => format!("open {}", h),
            Op::Next(i) => format!("next {}", i),
            Op::Drop(i) => format!("drop {}", i),
            Op::Make(h) => format!("make {}", h),
        }
    }
    fn parse(t: &str) -> Option<Op> {
        let p: Vec<&str> = t.split_whitespace().collect();
        let n = |i: usize| -> Option<usize> { p.get(i)?.parse().ok() };
        match *p.first()? {
            "cost" => Some(Op::Cost(n(1)?, n(2)?)),
            "least" => Some(Op::Least(n(1)?, n(2)?)),
            "open" => Some(Op::Open(n(1)?)),
            "next" => Some(Op::Next(n(1)?)),
            "drop" => Some(Op::Drop(n(1)?)),
            "make" => Some(Op::Make(n(1)?)),
            _ => None,
        }
    }
}

#[derive(Clone, Debug)]
pub struct History {
    pub prefix: Vec<u64>,
    pub handles: usize,
    /// handles created by a `make` operation instead of at the start
    pub deferred: Vec<usize>,
    pub ops: Vec<Op>,
}

#[derive(Clone, Debug)]
pub enum Fail {
    Panic { op_index: usize },
    Wrong { op_index: usize, got: u64, fresh: u64, model: u64 },
}

/// Independent reference: sub-additive (min-plus) extension where the library extrapolates
/// (three or more samples), whole-prefix repetition otherwise.
pub fn ref_cost(prefix: &[u64], n: usize) -> u64 {
    if n == 0 || prefix.is_empty() {
        return 0;
    }
    if prefix.len() < 3 {
        let x = n / prefix.len();
        let y = n % prefix.len();
        return prefix[prefix.len() - 1] * x as u64 + if y > 0 { prefix[y - 1] } else { 0 };
    }
    let mut c: Vec<u64> = vec![0];
    c.extend_from_slice(prefix);
    while c.len() <= n {
        let m = c.len(); // cost of m jobs
        let mut best = u64::MAX;
        for a in 1..m {
            best = best.min(c[a] + c[m - a]);
        }
        c.push(best);
    }
    c[n]
}

pub fn run_history(h: &History) -> Result<u64, Fail> {
    let cur = Cell::new(0usize);
    let res = guarded(|| -> Result<u64, Fail> {
        let base = wcet::ExtrapolatingCurve::new(wcet::Curve::new(h.prefix.iter().map(|x| s(*x)).collect()));
        let handles: Vec<std::cell::OnceCell<wcet::ExtrapolatingCurve>> =
            (0..h.handles).map(|_| std::cell::OnceCell::new()).collect();
        for i in 0..h.handles {
            if !h.deferred.contains(&i) {
                let _ = handles[i].set(base.clone());
            }
        }
        let fresh_cost = |n: usize| -> u64 {
            let mut c = wcet::Curve::new(h.prefix.iter().map(|x| s(*x)).collect());
            c.extrapolate(n + 1);
            su(c.cost_of_jobs(n))
        };
        let fresh_least = |n: usize| -> u64 {
            let f = wcet::ExtrapolatingCurve::new(wcet::Curve::new(h.prefix.iter().map(|x| s(*x)).collect()));
            su(f.least_wcet(n))
        };
        let mut iters: Vec<Option<(Box<dyn Iterator<Item = Service> + '_>, usize)>> = Vec::new();
        let mut compared = 0u64;
        for (idx, op) in h.ops.iter().enumerate() {
            cur.set(idx);
            match op {
                Op::Make(hi) => {
                    if let Some(cell) = handles.get(*hi) {
                        let _ = cell.set(base.clone());
                    }
                }
                Op::Cost(hi, n) => {
                    let hd = match handles.get(*hi).and_then(|c| c.get()) {
                        Some(x) => x,
                        None => continue,
                    };
                    let got = su(hd.cost_of_jobs(*n));
                    let f = fresh_cost(*n);
                    let m = ref_cost(&h.prefix, *n);
                    compared += 1;
                    if got != f || got != m {
                        return Err(Fail::Wrong { op_index: idx, got, fresh: f, model: m });
                    }
                }
                Op::Least(hi, n) => {
                    let hd = match handles.get(*hi).and_then(|c| c.get()) {
                        Some(x) => x,
                        None => continue,
                    };
                    let got = su(hd.least_wcet(*n));
                    let f = fresh_least(*n);
                    compared += 1;
                    if got != f {
                        return Err(Fail::Wrong { op_index: idx, got, fresh: f, model: f });
                    }
                }
                Op::Open(hi) => match handles.get(*hi).and_then(|c| c.get()) {
                    Some(hd) => iters.push(Some((hd.job_cost_iter(), 0))),
                    None => iters.push(None),
                },
                Op::Next(i) => {
                    if let Some(Some((it, consumed))) = iters.get_mut(*i) {
                        let got = it.next().map(su).unwrap_or(u64::MAX);
                        *consumed += 1;
                        let n = *consumed;
                        let f = fresh_cost(n) - fresh_cost(n - 1);
                        let m = ref_cost(&h.prefix, n) - ref_cost(&h.prefix, n - 1);
                        compared += 1;
                        if got != f || got != m {
                            return Err(Fail::Wrong { op_index: idx, got, fresh: f, model: m });
                        }
                    }
                }
                Op::Drop(i) => {
                    if let Some(slot) = iters.get_mut(*i) {
                        *slot = None;
                    }
                }
            }
        }
        Ok(compared)
    });
    match res {
        None => Err(Fail::Panic { op_index: cur.get() }),
        Some(r) => r,
    }
}

fn history_text(h: &History) -> String {
    let dv: Vec<u64> = h.deferred.iter().map(|x| *x as u64).collect();
    let mut out = format!("prefix {}\nhandles {}\ndeferred {}\n", nums(&h.prefix), h.handles, nums(&dv));
    for o in &h.ops {
        out.push_str(&format!("op {}\n", o.text()));
    }
    out
}

fn parse_history(text: &str) -> Option<History> {
    let mut prefix = Vec::new();
    let mut handles = 0usize;
    let mut deferred: Vec<usize> = Vec::new();
    let mut ops = Vec::new();
    for l in text.lines() {
        let l = l.trim();
        if let Some(r) = l.strip_prefix("prefix ") {
            prefix = r.split_whitespace().filter_map(|x| x.parse().ok()).collect();
        } else if let Some(r) = l.strip_prefix("handles ") {
            handles = r.trim().parse().ok()?;
        } else if let Some(r) = l.strip_prefix("deferred") {
            deferred = r.split_whitespace().filter_map(|x| x.parse().ok()).collect();
        } else if let Some(r) = l.strip_prefix("op ") {
            ops.push(Op::parse(r)?);
        }
    }
    if prefix.is_empty() || handles == 0 {
        return None;
    }
    Some(History { prefix, handles, deferred, ops })
}

fn fail_text(f: &Fail, h: &History) -> String {
    match f {
        Fail::Panic { op_index } => format!(
            "operation #{} ({}) panicked",
            op_index,
            h.ops.get(*op_index).map(|o| o.text()).unwrap_or_default()
        ),
        Fail::Wrong { op_index, got, fresh, model } => format!(
            "operation #{} ({}) returned {} but a fresh object gives {} (reference model {})",
            op_index,
            h.ops.get(*op_index).map(|o| o.text()).unwrap_or_default(),
            got,
            fresh,
            model
        ),
    }
}

fn fail_key(f: &Fail, h: &History) -> String {
    match f {
        Fail::Panic { .. } => "cost-cache query panics".into(),
        Fail::Wrong { op_index, .. } => match h.ops.get(*op_index) {
            Some(Op::Least(..)) => "least_wcet depends on the query history".into(),
            _ => "cost-cache answers differ from a fresh object".into(),
        },
    }
}

pub fn minimise_history(h: &History, f: &Fail) -> (History, Fail) {
    let key = fail_key(f, h);
    let mut best = h.clone();
    let mut fail = f.clone();
    let cut = match &fail {
        Fail::Panic { op_index } | Fail::Wrong { op_index, .. } => *op_index + 1,
    };
    best.ops.truncate(cut);
    let mut i = 0;
    while i + 1 < best.ops.len() {
        let mut cand = best.clone();
        let removed = cand.ops.remove(i);
        if let Op::Open(_) = removed {
            let opened_before = cand.ops[..i].iter().filter(|o| matches!(o, Op::Open(_))).count();
            let mut ok = true;
            for o in cand.ops.iter_mut() {
                match o {
                    Op::Next(k) | Op::Drop(k) => {
                        if *k == opened_before {
                            ok = false;
                        } else if *k > opened_before {
                            *k -= 1;
                        }
                    }
                    _ => {}
                }
            }
            if !ok {
                i += 1;
                continue;
            }
        }
        match run_history(&cand) {
            Err(f2) if fail_key(&f2, &cand) == key => {
                best = cand;
                fail = f2;
            }
            _ => i += 1,
        }
    }
    (best, fail)
}

/// A monotone, sub-additive cumulative-cost prefix that need not be the run maxima of any trace:
/// random cumulative sums, then the sub-additive closure `c[n] = min(c[n], c[k] + c[n-k])`
/// (which keeps the vector monotone).
pub fn closed_prefix(rng: &mut Rng, len: usize) -> Vec<u64> {
    let big = rng.chance(1, 3);
    let mut c: Vec<u64> = Vec::with_capacity(len);
    let mut sum = 0u64;
    for _ in 0..len {
        sum += if big { rng.range(0, 40) } else { rng.range(0, 9) };
        c.push(sum);
    }
    for n in 2..=len {
        // c[n-1] holds the cost of n jobs
        for k in 1..n {
            let split = c[k - 1] + c[n - k - 1];
            if split < c[n - 1] {
                c[n - 1] = split;
            }
        }
    }
    c
}

pub fn gen_history(rng: &mut Rng, stats: &mut [u64; 6]) -> History {
    let mut tstats = [0u64; 4];
    let n = rng.range(3, 40) as usize;
    let trace = cost_trace(rng, n, &mut tstats);
    let max_n = rng.range(1, 8) as usize;
    let prefix: Vec<u64> = if rng.chance(1, 3) {
        closed_prefix(rng, max_n)
    } else {
        (1..=max_n.min(trace.len())).map(|k| max_run_cost(&trace, k)).collect()
    };
    let handles = rng.range(2, 5) as usize;
    let deferred: Vec<usize> = (1..handles).filter(|_| rng.chance(1, 3)).collect();
    let mut made: Vec<bool> = (0..handles).map(|i| !deferred.contains(&i)).collect();
    let steps = rng.range(6, 60) as usize;
    let mut ops = Vec::new();
    let mut open: Vec<usize> = Vec::new();
    let mut n_iters = 0usize;
    let iter_heavy = rng.chance(1, 3);
    // one history in sixty contains queries that jump thousands of jobs ahead
    let huge = rng.chance(1, 60);
    for _ in 0..steps {
        let pending: Vec<usize> = (0..handles).filter(|i| !made[*i]).collect();
        if !pending.is_empty() && rng.chance(1, 5) {
            let hn = *rng.pick(&pending);
            made[hn] = true;
            ops.push(Op::Make(hn));
            stats[5] += 1;
            continue;
        }
        let avail: Vec<usize> = (0..handles).filter(|i| made[*i]).collect();
        let h = *rng.pick(&avail);
        stats[0] += 1;
        let q = match rng.below(if huge { 5 } else { 4 }) {
            4 => rng.range(1100, 4000) as usize, // far beyond anything cached so far
            0 => rng.below(prefix.len() as u64 + 2) as usize,
            1 => rng.range(1, 400) as usize,
            2 => prefix.len() * rng.range(1, 6) as usize + rng.below(3) as usize,
            _ => rng.range(1, 4 * prefix.len() as u64 + 2) as usize,
        };
        let c = rng.below(10);
        if (c < 3 || (iter_heavy && c < 6)) && !open.is_empty() {
            let it = *rng.pick(&open);
            let burst = if rng.chance(1, 12) { rng.range(5, 60) } else { 1 };
            for _ in 0..burst {
                ops.push(Op::Next(it));
                stats[1] += 1;
            }
        } else if c == 3 || (iter_heavy && c == 6) {
            ops.push(Op::Open(h));
            open.push(n_iters);
            n_iters += 1;
            stats[2] += 1;
        } else if c == 4 && !open.is_empty() {
            let pos = rng.index(open.len());
            ops.push(Op::Drop(open.remove(pos)));
            stats[3] += 1;
        } else if c < 8 {
            ops.push(Op::Cost(h, q));
            if rng.chance(1, 10) {
                ops.push(Op::Cost(*rng.pick(&avail), q)); // the same query again
            }
        } else {
            ops.push(Op::Least(h, q));
        }
    }
    stats[4] += open.len() as u64;
    History { prefix, handles, deferred, ops }
}

pub struct WcetShared<'a> {
    pub root: u64,
    pub fps: &'a Distinct,
    pub nontrivial: &'a Distinct,
}

fn trace_item(sh: &WcetShared, k: u64, rng: &mut Rng, acc: &mut Acc) {
    let mut tstats = [0u64; 4];
    let n = rng.range(1, 120) as usize;
    let trace = cost_trace(rng, n, &mut tstats);
    let max_n = rng.range(1, 8) as usize;
    let extrap_to = rng.range(1, 3 * n as u64 + 8) as usize;
    acc.counters.inc("runs");
    acc.counters.inc("case.from_trace");
    acc.counters.add("jobs_in_traces", n as u64);
    acc.counters.add("fault.cost_spike", tstats[0]);
    acc.counters.add("fault.zero_cost_job", tstats[1]);
    acc.counters.add("fault.early_completion", tstats[2]);
    let mut fp = Fingerprint::new();
    fp.add(max_n as u64);
    fp.add(extrap_to as u64);
    for c in &trace {
        fp.add(*c);
    }
    let fpv = fp.finish();
    sh.fps.insert(fpv);
    acc.digest_add(fpv);
    if n > max_n {
        sh.nontrivial.insert(fpv);
        acc.counters.inc("runs_nontrivial");
    }
    // does the most expensive run of some length sit in the last max_n - 1 positions?
    for len in 1..=max_n.min(n) {
        let best = max_run_cost(&trace, len);
        let tail_start = n.saturating_sub(max_n.saturating_sub(1)).min(n - len);
        let tail_best = (tail_start..=(n - len)).map(|i| trace[i..i + len].iter().sum::<u64>()).max().unwrap_or(0);
        let head_best = if tail_start > 0 {
            (0..tail_start).map(|i| trace[i..i + len].iter().sum::<u64>()).max().unwrap_or(0)
        } else {
            0
        };
        if tail_best == best && head_best < best {
            acc.counters.inc("probe.expensive_run_only_at_trace_end");
            break;
        }
    }
    let body = format!("trace {}\nmax_n {}\nextrapolate {}\n", nums(&trace), max_n, extrap_to);
    let note = format!("seed={} case={}", sh.root, k);
    match check_trace(&trace, max_n, extrap_to) {
        Ok(()) => {}
        Err(TraceFail::Panic) => acc.report(Report {
            order: (k, 0),
            key: "wcet curve from trace panics".into(),
            summary: format!("wcet::Curve::from_trace / extrapolate panicked (max_n={}, {} jobs)", max_n, n),
            replay: replay_text("trace", &body, "library call panics", &note),
        }),
        Err(TraceFail::Undercounts { n: len, start, sum, claimed, extrapolated }) => acc.report(Report {
            order: (k, 0),
            key: if extrapolated {
                "extrapolated wcet curve undercounts the trace".into()
            } else {
                "wcet curve from trace undercounts the trace".into()
            },
            summary: format!(
                "wcet::Curve::from_trace(max_n={}){}: jobs {}..{} of the trace cost {} but cost_of_jobs({}) = {}",
                max_n,
                if extrapolated { format!(" + extrapolate({})", extrap_to) } else { String::new() },
                start,
                start + len - 1,
                sum,
                len,
                claimed
            ),
            replay: replay_text("trace", &body, &format!("n={} start={} sum={} claimed={}", len, start, sum, claimed), &note),
        }),
        Err(TraceFail::Rises { n: len, before, after, within }) => acc.report(Report {
            order: (k, 0),
            key: if within {
                "wcet extrapolation raises a bound inside the extrapolated range".into()
            } else {
                "wcet extrapolation raises a bound beyond the extrapolated range".into()
            },
            summary: format!(
                "extrapolate({}) raises cost_of_jobs({}) from {} to {} (trace-derived prefix, max_n={})",
                extrap_to, len, before, after, max_n
            ),
            replay: replay_text("trace", &body, &format!("n={} before={} after={}", len, before, after), &note),
        }),
    }
    acc.sample((k, 0), || {
        let mut j = Json::obj();
        j.set("case", Json::str("from_trace"));
        j.set("max_n", Json::Int(max_n as i128));
        j.set("extrapolate", Json::Int(extrap_to as i128));
        j.set("trace", Json::str(nums(&trace)));
        j
    });
}

fn shape_item(sh: &WcetShared, k: u64, rng: &mut Rng, acc: &mut Acc) {
    let mut tstats = [0u64; 4];
    let desc = match rng.below(5) {
        4 => {
            let n = rng.range(1, 6) as usize;
            CostDesc::User((0..n).map(|_| rng.range(0, 15)).collect())
        }
        0 => CostDesc::Scalar(rng.range(0, 20)),
        1 => {
            let n = rng.range(1, 7) as usize;
            CostDesc::Multiframe((0..n).map(|_| rng.range(0, 15)).collect())
        }
        x => {
            let n = rng.range(1, 40) as usize;
            let tr = cost_trace(rng, n, &mut tstats);
            let max_n = rng.range(1, 8) as usize;
            let prefix: Vec<u64> = if rng.chance(1, 3) {
                closed_prefix(rng, max_n)
            } else {
                (1..=max_n.min(tr.len())).map(|kk| max_run_cost(&tr, kk)).collect()
            };
            if x == 2 {
                CostDesc::Curve(prefix)
            } else {
                CostDesc::Extrap(prefix)
            }
        }
    };
    acc.counters.inc("runs");
    match &desc {
        CostDesc::Scalar(_) => acc.counters.inc("case.shape_scalar"),
        CostDesc::Multiframe(_) => acc.counters.inc("case.shape_multiframe"),
        CostDesc::Curve(_) => acc.counters.inc("case.shape_curve"),
        CostDesc::Extrap(_) => acc.counters.inc("case.shape_extrapolating_curve"),
        CostDesc::User(_) => acc.counters.inc("case.shape_user_defined"),
    }
    let fpv = hash_str(&format!("shape/{}", desc));
    sh.fps.insert(fpv);
    acc.digest_add(fpv);
    if !matches!(desc, CostDesc::Scalar(_)) {
        sh.nontrivial.insert(fpv);
        acc.counters.inc("runs_nontrivial");
    }
    let upto = rng.range(1, 80) as usize;
    match check_shape(&desc, upto) {
        Ok(()) => {}
        Err(e) => {
            let msg = match e {
                ShapeFail::Panic => "library call panics".to_string(),
                ShapeFail::Msg(m) => m,
            };
            acc.report(Report {
                order: (k, 0),
                key: format!("cost model shape ({})", match &desc {
                    CostDesc::Scalar(_) => "Scalar",
                    CostDesc::Multiframe(_) => "Multiframe",
                    CostDesc::Curve(_) => "Curve",
                    CostDesc::Extrap(_) => "ExtrapolatingCurve",
                    CostDesc::User(_) => "user-defined",
                }),
                summary: format!("{}: {}", desc, msg),
                replay: replay_text("shape", &format!("model {}\nupto {}\n", desc, upto), &msg, &format!("seed={} case={}", sh.root, k)),
            });
        }
    }
}

fn client_item(sh: &WcetShared, k: u64, rng: &mut Rng, acc: &mut Acc) {
    let mut stats = [0u64; 6];
    let h = gen_history(rng, &mut stats);
    acc.counters.inc("runs");
    acc.counters.inc("case.query_clients");
    acc.counters.add("client_ops", h.ops.len() as u64);
    acc.counters.add("fault.scheduling_decisions", stats[0]);
    acc.counters.add("fault.iterator_advanced_between_queries", stats[1]);
    acc.counters.add("fault.iterator_opened", stats[2]);
    acc.counters.add("fault.iterator_dropped_midway", stats[3]);
    acc.counters.add("fault.iterator_in_flight_at_end", stats[4]);
    acc.counters.add("fault.handle_cloned_after_cache_extended", stats[5]);
    let text = history_text(&h);
    let fpv = hash_str(&text);
    sh.fps.insert(fpv);
    acc.digest_add(fpv);
    if h.prefix.len() >= 3 {
        // the cache actually extrapolates
        sh.nontrivial.insert(fpv);
        acc.counters.inc("runs_nontrivial");
    }
    match run_history(&h) {
        Ok(n) => acc.counters.add("probe.answers_compared", n),
        Err(f) => acc.report(Report {
            order: (k, 0),
            key: fail_key(&f, &h),
            summary: format!("cost prefix {:?}: {}", h.prefix, fail_text(&f, &h)),
            replay: replay_text("clients", &text, &fail_text(&f, &h), &format!("seed={} case={}", sh.root, k)),
        }),
    }
    acc.sample((k, 1), || {
        let mut j = Json::obj();
        j.set("case", Json::str("query clients on one shared wcet::ExtrapolatingCurve"));
        j.set("prefix", Json::str(format!("{:?}", h.prefix)));
        j.set("ops", Json::Arr(h.ops.iter().map(|x| Json::str(x.text())).collect()));
        j
    });
}

pub fn c14_item(sh: &WcetShared, k: u64, acc: &mut Acc, note: &dyn Fn(&str)) {
    let mut rng = Rng::new(Rng::run_seed(sh.root, "C14", k));
    note(&format!("C14 case#{}", k));
    match k % 4 {
        0 | 1 => trace_item(sh, k, &mut rng, acc),
        2 => client_item(sh, k, &mut rng, acc),
        _ => shape_item(sh, k, &mut rng, acc),
    }
}

pub fn run_c14(opt: &Options) -> i32 {
    let t0 = std::time::Instant::now();
    let cases = if opt.thorough() {
        opt.scaled(60_000_000)
    } else {
        opt.scaled(1_000_000)
    };
    let fps = Distinct::new(30);
    let nontrivial = Distinct::new(30);
    let sh = WcetShared {
        root: opt.seed,
        fps: &fps,
        nontrivial: &nontrivial,
    };
    let fin = |mut acc: Acc| -> i32 {
        let wall = t0.elapsed().as_secs_f64();
        let mut cov = Json::obj();
        cov.set("evaluations", Json::Int(acc.counters.get("runs") as i128));
        cov.set("distinct_nontrivial", Json::Int(nontrivial.count() as i128));
        cov.set(
            "rule",
            Json::str(
                "one evaluation = (a) one recorded job-cost history (frame pattern with variation, \
                 spikes and zero-cost jobs) fed to wcet::Curve::from_trace(max_n): every run of n \
                 consecutive jobs, for every n up to the trace length, is summed and compared with \
                 cost_of_jobs(n); then extrapolate(m): no value may rise, the trace must still be \
                 dominated; (b) one query history of 2-5 handles sharing one wcet::ExtrapolatingCurve \
                 (cost_of_jobs / least_wcet / open-advance-drop job_cost_iter) under a seeded scheduler, \
                 every answer compared with a fresh object and an independent min-plus model; (c) the \
                 pure invariants (zero at zero, monotone, iterator sums, least_wcet) of one random \
                 Scalar / Multiframe / Curve / ExtrapolatingCurve instance. distinct = distinct \
                 fingerprints; non-trivial = trace longer than max_n (a), prefix long enough for the \
                 cache to extrapolate (b), not a Scalar (c)",
            ),
        );
        cov.set("distinct_cases", Json::Int(fps.count() as i128));
        cov.set(
            "components",
            components_json(
                &["wcet::{Scalar, Multiframe, Curve, ExtrapolatingCurve}::{cost_of_jobs, least_wcet, job_cost_iter}, wcet::Curve::{from_trace, extrapolate} (real)"],
                &["execution-time source / trace recorder, cooperative query-client scheduler, min-plus reference model (stubs, sim/src/wcetsim.rs)"],
            ),
        );
        let out = finish(
            opt,
            &mut acc,
            wall,
            cov,
            &[
                "cost prefixes used for Curve / ExtrapolatingCurve instances are well-formed: exact run maxima of recorded traces, or (one in three) the sub-additive closure of random cumulative sums; monotone but non-sub-additive vectors (a loose entry such as [5,6,12]) are treated as the 'garbage in' the constructor's documentation excludes",
                "the clauses about zero, monotonicity, iterator sums and least_wcet are pure and ride along",
            ],
            &|r: &Report| {
                let kind = get_line(&r.replay, "kind ").unwrap_or_default();
                if kind == "clients" {
                    if let Some(h) = parse_history(&r.replay) {
                        if let Err(f) = run_history(&h) {
                            let (m, f2) = minimise_history(&h, &f);
                            let note = get_line(&r.replay, "note ").unwrap_or_default();
                            return (
                                replay_text("clients", &history_text(&m), &fail_text(&f2, &m), &format!("{} (minimised from {} operations)", note, h.ops.len())),
                                format!("cost prefix {:?}: {}", m.prefix, fail_text(&f2, &m)),
                            );
                        }
                    }
                }
                if kind == "trace" {
                    if let Some((small, summary)) = minimise_trace(&r.replay) {
                        return (small, summary);
                    }
                }
                (r.replay.clone(), r.summary.clone())
            },
        );
        out.exit_code
    };
    run_parallel_then(cases, opt.jobs, 60, |k, acc, note| c14_item(&sh, k, acc, note), &fin)
}

fn get_line(text: &str, head: &str) -> Option<String> {
    text.lines()
        .find_map(|l| l.trim().strip_prefix(head).map(|r| r.trim().to_string()))
}

fn trace_fail_class(f: &TraceFail) -> u8 {
    match f {
        TraceFail::Panic => 0,
        TraceFail::Undercounts { extrapolated: false, .. } => 1,
        TraceFail::Undercounts { extrapolated: true, .. } => 2,
        TraceFail::Rises { within: true, .. } => 3,
        TraceFail::Rises { within: false, .. } => 4,
    }
}

/// Shrink a failing job-cost history: drop jobs from both ends and lower costs while the same
/// class of failure persists.
fn minimise_trace(replay: &str) -> Option<(String, String)> {
    let trace: Vec<u64> = get_line(replay, "trace ")?.split_whitespace().filter_map(|x| x.parse().ok()).collect();
    let max_n: usize = get_line(replay, "max_n ")?.parse().ok()?;
    let ext: usize = get_line(replay, "extrapolate ")?.parse().ok()?;
    let class = trace_fail_class(&check_trace(&trace, max_n, ext).err()?);
    let mut best = trace.clone();
    let fails = |t: &[u64]| -> bool {
        !t.is_empty() && check_trace(t, max_n, ext).err().map(|f| trace_fail_class(&f) == class).unwrap_or(false)
    };
    let mut progress = true;
    while progress {
        progress = false;
        while best.len() > 1 && fails(&best[1..]) {
            best.remove(0);
            progress = true;
        }
        while best.len() > 1 && fails(&best[..best.len() - 1]) {
            best.pop();
            progress = true;
        }
        for i in 0..best.len() {
            while best[i] > 0 {
                let mut cand = best.clone();
                cand[i] = if cand[i] > 4 { cand[i] / 2 } else { cand[i] - 1 };
                if fails(&cand) {
                    best = cand;
                    progress = true;
                } else {
                    break;
                }
            }
        }
    }
    let f = check_trace(&best, max_n, ext).err()?;
    let note = get_line(replay, "note ").unwrap_or_default();
    let body = format!("trace {}\nmax_n {}\nextrapolate {}\n", nums(&best), max_n, ext);
    Some((
        replay_text("trace", &body, &format!("{:?}", f), &format!("{} (minimised from {} jobs)", note, trace.len())),
        format!("trace [{}], max_n={}, extrapolate({}): {:?}", nums(&best), max_n, ext, f),
    ))
}

pub fn replay_wcet(path: &str, text: &str) -> i32 {
    let kind = get_line(text, "kind ").unwrap_or_default();
    let viol = |msg: String| -> i32 {
        println!("violation: {}", msg);
        println!("VIOLATION property=C14 replay={}", path);
        1
    };
    match kind.as_str() {
        "trace" => {
            let trace: Vec<u64> = get_line(text, "trace ").unwrap_or_default().split_whitespace().filter_map(|x| x.parse().ok()).collect();
            let max_n: usize = get_line(text, "max_n ").and_then(|x| x.parse().ok()).unwrap_or(1);
            let ext: usize = get_line(text, "extrapolate ").and_then(|x| x.parse().ok()).unwrap_or(1);
            if trace.is_empty() || max_n == 0 || ext == 0 {
                eprintln!("HARNESS-ERROR: degenerate trace case");
                return 2;
            }
            match check_trace(&trace, max_n, ext) {
                Ok(()) => {
                    println!("replay: no violation");
                    0
                }
                Err(TraceFail::Rises { n, before, after, within: false }) => {
                    let key = "wcet extrapolation raises a bound beyond the extrapolated range";
                    match crate::harness::known_match("C14", key) {
                        Some(what) => {
                            println!("replay: reproduced (n={} before={} after={})", n, before, after);
                            println!("KNOWN-FINDING: property=C14 {} [key: {}]", what, key);
                            0
                        }
                        None => viol(format!(
                            "trace [{}], max_n={}, extrapolate({}): cost_of_jobs({}) rises from {} to {} (beyond the extrapolated range)",
                            nums(&trace), max_n, ext, n, before, after
                        )),
                    }
                }
                Err(f) => viol(format!("trace [{}], max_n={}, extrapolate({}): {:?}", nums(&trace), max_n, ext, f)),
            }
        }
        "clients" => match parse_history(text) {
            None => {
                eprintln!("HARNESS-ERROR: cannot parse the operation history");
                2
            }
            Some(h) => match run_history(&h) {
                Ok(_) => {
                    println!("replay: no violation");
                    0
                }
                Err(f) => viol(format!("cost prefix {:?}: {}", h.prefix, fail_text(&f, &h))),
            },
        },
        "shape" => {
            let desc = match get_line(text, "model ").ok_or("no model".to_string()).and_then(|m| crate::desc::parse_cost(&m)) {
                Ok(dd) => dd,
                Err(e) => {
                    eprintln!("HARNESS-ERROR: {}", e);
                    return 2;
                }
            };
            let upto: usize = get_line(text, "upto ").and_then(|x| x.parse().ok()).unwrap_or(20);
            match check_shape(&desc, upto) {
                Ok(()) => {
                    println!("replay: no violation");
                    0
                }
                Err(e) => viol(format!("{}: {:?}", desc, e)),
            }
        }
        other => {
            eprintln!("HARNESS-ERROR: unknown wcet replay kind '{}'", other);
            2
        }
    }
}
