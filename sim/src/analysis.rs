//! Calls into the real analyses of `response-time-analysis` for the
//! uniprocessor task-set description, through the public API only.

use std::cell::Cell;
use std::panic::{catch_unwind, AssertUnwindSafe};
use std::rc::Rc;

use response_time_analysis::arrival::ArrivalBound;
use response_time_analysis::demand::{self, RequestBound, RBF};
use response_time_analysis::fixed_point::SearchResult;
use response_time_analysis::wcet::Scalar;
use response_time_analysis::{edf, fifo, fixed_priority as fp};

use crate::desc::{d, du, s};
use crate::uni::{Policy, Preempt, TaskSet, Variant};

thread_local! {
    /// set while library code runs under `guarded`; the panic hook stays quiet then
    pub static IN_LIBRARY: Cell<bool> = const { Cell::new(false) };
}

#[derive(Clone, Copy, Debug, PartialEq, Eq)]
pub enum Outcome {
    Ok(u64),
    /// the analysis reported divergence / assumption violated: no claim
    Err,
    /// the analysis panicked: no claim (counted)
    Panic,
}

impl Outcome {
    pub fn bound(self) -> Option<u64> {
        match self {
            Outcome::Ok(r) => Some(r),
            _ => None,
        }
    }
}

/// Run library code, turning a panic into `None`.
pub fn guarded<T>(f: impl FnOnce() -> T) -> Option<T> {
    IN_LIBRARY.with(|c| c.set(true));
    let r = catch_unwind(AssertUnwindSafe(f));
    IN_LIBRARY.with(|c| c.set(false));
    r.ok()
}

pub fn outcome_of(r: Option<SearchResult>) -> Outcome {
    match r {
        Some(Ok(v)) => Outcome::Ok(du(v)),
        Some(Err(_)) => Outcome::Err,
        None => Outcome::Panic,
    }
}

pub fn install_quiet_panic_hook() {
    let default = std::panic::take_hook();
    std::panic::set_hook(Box::new(move |info| {
        if !IN_LIBRARY.with(|c| c.get()) {
            default(info);
        }
    }));
}

type DynRbf = RBF<Box<dyn ArrivalBound>, Scalar>;

fn rbf_of(ts: &TaskSet, i: usize) -> DynRbf {
    RBF::new(ts.tasks[i].arr.build(), Scalar::new(s(ts.tasks[i].wcet)))
}

/// A request-bound function the *user* wrote against the public trait: it forwards the three
/// required methods to a plain RBF and relies on the trait's DEFAULT `service_needed` (sum of
/// `job_cost_iter`) and `service_needed_by_n_jobs` (representation 5).
pub struct UserRb(pub DynRbf);

impl RequestBound for UserRb {
    fn least_wcet_in_interval(&self, delta: response_time_analysis::time::Duration) -> response_time_analysis::time::Service {
        self.0.least_wcet_in_interval(delta)
    }
    fn steps_iter<'a>(&'a self) -> Box<dyn Iterator<Item = response_time_analysis::time::Duration> + 'a> {
        self.0.steps_iter()
    }
    fn job_cost_iter<'a>(
        &'a self,
        delta: response_time_analysis::time::Duration,
    ) -> Box<dyn Iterator<Item = response_time_analysis::time::Service> + 'a> {
        self.0.job_cost_iter(delta)
    }
}

/// The demand of task `j` as handed to an analysis that takes trait objects: plain RBF, or (for
/// the "group" representations 3 and 4) an aggregate of the task and a member that never
/// releases anything — a valid, if unusual, upper bound of the same task's demand.
fn other_dyn(ts: &TaskSet, j: usize, repr: u8) -> Box<dyn RequestBound> {
    if repr == 5 {
        return Box::new(UserRb(rbf_of(ts, j)));
    }
    if repr >= 3 {
        let never: DynRbf = RBF::new(
            Box::new(response_time_analysis::arrival::Never {}),
            Scalar::new(s(ts.tasks[j].wcet)),
        );
        let members: Vec<Box<dyn RequestBound>> = if repr == 3 {
            vec![Box::new(rbf_of(ts, j)), Box::new(never)]
        } else {
            vec![Box::new(never), Box::new(rbf_of(ts, j))]
        };
        Box::new(demand::Aggregate::new(members))
    } else {
        Box::new(rbf_of(ts, j))
    }
}

/// Blocking bound as the property states it: longest lower-priority
/// non-preemptive segment minus one.
pub fn fp_blocking(ts: &TaskSet, i: usize, pre: Preempt) -> u64 {
    ts.tasks
        .iter()
        .enumerate()
        .filter(|(j, t)| *j != i && t.prio < ts.tasks[i].prio)
        .map(|(_, t)| t.max_np_under(pre))
        .max()
        .unwrap_or(0)
        .saturating_sub(1)
}

/// Analyse task `i` of `ts` under `variant`.  `repr` selects how the models are
/// handed to the library (concrete generics, boxed trait objects, references / Rc).
pub fn analyse(ts: &TaskSet, variant: Variant, i: usize, repr: u8) -> Outcome {
    outcome_of(guarded(|| analyse_raw(ts, variant, i, repr)))
}

pub fn analyse_raw(ts: &TaskSet, variant: Variant, i: usize, repr: u8) -> SearchResult {
    let limit = d(ts.limit);
    let me = &ts.tasks[i];
    match variant.policy() {
        Policy::Fp => {
            let hep: Vec<usize> = (0..ts.tasks.len())
                .filter(|j| *j != i && ts.tasks[*j].prio >= me.prio)
                .collect();
            let blocking = s(fp_blocking(ts, i, variant.preempt()));
            let tua_rbf = rbf_of(ts, i);
            let tua_arr = me.arr.build();
            let wcet = Scalar::new(s(me.wcet));
            macro_rules! run_fp {
                ($others:expr) => {{
                    let others = $others;
                    match variant {
                        Variant::FpP => {
                            if repr == 1 {
                                let t: &dyn RequestBound = &tua_rbf;
                                fp::fully_preemptive::dedicated_uniproc_rta(t, &others[..], limit)
                            } else {
                                fp::fully_preemptive::dedicated_uniproc_rta(
                                    &tua_rbf,
                                    &others[..],
                                    limit,
                                )
                            }
                        }
                        Variant::FpNp => {
                            let tua = fp::fully_nonpreemptive::TaskUnderAnalysis {
                                wcet,
                                arrivals: &*tua_arr,
                                blocking_bound: blocking,
                            };
                            fp::fully_nonpreemptive::dedicated_uniproc_rta(&tua, &others[..], limit)
                        }
                        Variant::FpLp => {
                            let tua = fp::limited_preemptive::TaskUnderAnalysis {
                                wcet,
                                arrivals: &*tua_arr,
                                last_np_segment: s(me.last_seg()),
                                blocking_bound: blocking,
                            };
                            fp::limited_preemptive::dedicated_uniproc_rta(&tua, &others[..], limit)
                        }
                        Variant::FpFl => {
                            if repr == 1 {
                                let t: &dyn RequestBound = &tua_rbf;
                                let tua = fp::floating_nonpreemptive::TaskUnderAnalysis {
                                    rbf: t,
                                    blocking_bound: blocking,
                                };
                                fp::floating_nonpreemptive::dedicated_uniproc_rta(
                                    &tua,
                                    &others[..],
                                    limit,
                                )
                            } else {
                                let tua = fp::floating_nonpreemptive::TaskUnderAnalysis {
                                    rbf: &tua_rbf,
                                    blocking_bound: blocking,
                                };
                                fp::floating_nonpreemptive::dedicated_uniproc_rta(
                                    &tua,
                                    &others[..],
                                    limit,
                                )
                            }
                        }
                        _ => unreachable!(),
                    }
                }};
            }
            match repr {
                1 => {
                    let others: Vec<Box<dyn RequestBound>> = hep
                        .iter()
                        .map(|j| Box::new(rbf_of(ts, *j)) as Box<dyn RequestBound>)
                        .collect();
                    run_fp!(others)
                }
                2 => {
                    let owned: Vec<DynRbf> = hep.iter().map(|j| rbf_of(ts, *j)).collect();
                    let others: Vec<&DynRbf> = owned.iter().collect();
                    run_fp!(others)
                }
                3 => {
                    // one aggregate interferer instead of a list
                    let owned: Vec<DynRbf> = hep.iter().map(|j| rbf_of(ts, *j)).collect();
                    let others = vec![demand::Aggregate::new(owned)];
                    run_fp!(others)
                }
                4 => {
                    // an aggregate of aggregates (the second one possibly empty)
                    let mut owned: Vec<DynRbf> = hep.iter().map(|j| rbf_of(ts, *j)).collect();
                    let tail = owned.split_off(owned.len() / 2);
                    let mut tail = tail;
                    tail.push(RBF::new(
                        Box::new(response_time_analysis::arrival::Never {}),
                        Scalar::new(s(1)),
                    ));
                    let others = vec![demand::Aggregate::new(vec![
                        demand::Aggregate::new(owned),
                        demand::Aggregate::new(tail),
                    ])];
                    run_fp!(others)
                }
                5 => {
                    // user-defined request-bound functions relying on the trait's defaults
                    let others: Vec<UserRb> = hep.iter().map(|j| UserRb(rbf_of(ts, *j))).collect();
                    run_fp!(others)
                }
                _ => {
                    let others: Vec<DynRbf> = hep.iter().map(|j| rbf_of(ts, *j)).collect();
                    run_fp!(others)
                }
            }
        }
        Policy::Edf => {
            let others_idx: Vec<usize> = (0..ts.tasks.len()).filter(|j| *j != i).collect();
            let tua_rbf = rbf_of(ts, i);
            let tua_arr = me.arr.build();
            let wcet = Scalar::new(s(me.wcet));
            let pre = variant.preempt();
            match variant {
                Variant::EdfP => {
                    let owned: Vec<DynRbf> = others_idx.iter().map(|j| rbf_of(ts, *j)).collect();
                    if repr == 1 || repr >= 3 {
                        let boxed: Vec<Box<dyn RequestBound>> =
                            others_idx.iter().map(|j| other_dyn(ts, *j, repr)).collect();
                        let dynr: Vec<&dyn RequestBound> = boxed.iter().map(|r| &**r).collect();
                        let others: Vec<edf::fully_preemptive::Task<dyn RequestBound>> = others_idx
                            .iter()
                            .zip(dynr.iter())
                            .map(|(j, r)| edf::fully_preemptive::Task {
                                rbf: *r,
                                deadline: d(ts.tasks[*j].deadline),
                            })
                            .collect();
                        let t: &dyn RequestBound = &tua_rbf;
                        let tua = edf::fully_preemptive::Task {
                            rbf: t,
                            deadline: d(me.deadline),
                        };
                        edf::fully_preemptive::dedicated_uniproc_rta(&tua, &others[..], limit)
                    } else {
                        let others: Vec<edf::fully_preemptive::Task<DynRbf>> = others_idx
                            .iter()
                            .zip(owned.iter())
                            .map(|(j, r)| edf::fully_preemptive::Task {
                                rbf: r,
                                deadline: d(ts.tasks[*j].deadline),
                            })
                            .collect();
                        let tua = edf::fully_preemptive::Task {
                            rbf: &tua_rbf,
                            deadline: d(me.deadline),
                        };
                        edf::fully_preemptive::dedicated_uniproc_rta(&tua, &others[..], limit)
                    }
                }
                Variant::EdfNp => {
                    let arrs: Vec<Box<dyn ArrivalBound>> =
                        others_idx.iter().map(|j| ts.tasks[*j].arr.build()).collect();
                    let others: Vec<edf::fully_nonpreemptive::Task<dyn ArrivalBound>> = others_idx
                        .iter()
                        .zip(arrs.iter())
                        .map(|(j, a)| edf::fully_nonpreemptive::Task {
                            wcet: Scalar::new(s(ts.tasks[*j].wcet)),
                            arrivals: &**a,
                            deadline: d(ts.tasks[*j].deadline),
                        })
                        .collect();
                    let tua = edf::fully_nonpreemptive::Task {
                        wcet,
                        arrivals: &*tua_arr,
                        deadline: d(me.deadline),
                    };
                    edf::fully_nonpreemptive::dedicated_uniproc_rta(&tua, &others[..], limit)
                }
                Variant::EdfLp => {
                    let owned: Vec<Box<dyn RequestBound>> =
                        others_idx.iter().map(|j| other_dyn(ts, *j, repr)).collect();
                    let others: Vec<edf::limited_preemptive::InterferingTask<dyn RequestBound>> = others_idx
                        .iter()
                        .zip(owned.iter())
                        .map(|(j, r)| edf::limited_preemptive::InterferingTask {
                            rbf: &**r,
                            deadline: d(ts.tasks[*j].deadline),
                            max_np_segment: s(ts.tasks[*j].max_np_under(pre)),
                        })
                        .collect();
                    let tua = edf::limited_preemptive::TaskUnderAnalysis {
                        wcet,
                        arrivals: &*tua_arr,
                        deadline: d(me.deadline),
                        last_np_segment: s(me.last_seg()),
                    };
                    edf::limited_preemptive::dedicated_uniproc_rta(&tua, &others[..], limit)
                }
                Variant::EdfFl => {
                    let owned: Vec<Box<dyn RequestBound>> =
                        others_idx.iter().map(|j| other_dyn(ts, *j, repr)).collect();
                    let others: Vec<edf::floating_nonpreemptive::InterferingTask<dyn RequestBound>> =
                        others_idx
                            .iter()
                            .zip(owned.iter())
                            .map(|(j, r)| edf::floating_nonpreemptive::InterferingTask {
                                rbf: &**r,
                                deadline: d(ts.tasks[*j].deadline),
                                max_np_segment: s(ts.tasks[*j].max_np_under(pre)),
                            })
                            .collect();
                    let tua = edf::floating_nonpreemptive::TaskUnderAnalysis {
                        rbf: &tua_rbf,
                        deadline: d(me.deadline),
                    };
                    edf::floating_nonpreemptive::dedicated_uniproc_rta(&tua, &others[..], limit)
                }
                _ => unreachable!(),
            }
        }
        Policy::Fifo => {
            let owned: Vec<DynRbf> = (0..ts.tasks.len()).map(|j| rbf_of(ts, j)).collect();
            match repr {
                1 => {
                    let boxed: Vec<Box<dyn RequestBound>> = owned
                        .into_iter()
                        .map(|r| Box::new(r) as Box<dyn RequestBound>)
                        .collect();
                    fifo::dedicated_uniproc_rta(&demand::Slice::of(&boxed[..]), limit)
                }
                2 => {
                    let rcs: Vec<Rc<DynRbf>> = owned.into_iter().map(Rc::new).collect();
                    let agg = demand::Aggregate::new(rcs);
                    let dynr: &dyn RequestBound = &agg;
                    fifo::dedicated_uniproc_rta(dynr, limit)
                }
                3 | 4 => {
                    // nested: an aggregate of (a slice-backed box, an aggregate)
                    let mut owned = owned;
                    let mut tail = owned.split_off(owned.len() / 2);
                    if repr == 4 {
                        tail.push(RBF::new(
                            Box::new(response_time_analysis::arrival::Never {}),
                            Scalar::new(s(1)),
                        ));
                    }
                    let parts: Vec<Box<dyn RequestBound>> = vec![
                        Box::new(demand::Aggregate::new(owned)),
                        Box::new(demand::Aggregate::new(tail)),
                    ];
                    fifo::dedicated_uniproc_rta(&demand::Aggregate::new(parts), limit)
                }
                5 => {
                    let user: Vec<UserRb> = owned.into_iter().map(UserRb).collect();
                    fifo::dedicated_uniproc_rta(&demand::Aggregate::new(user), limit)
                }
                _ => fifo::dedicated_uniproc_rta(&demand::Aggregate::new(owned), limit),
            }
        }
    }
}

/// All bounds of one variant: one entry per task.
pub fn analyse_all(ts: &TaskSet, variant: Variant, repr: u8) -> Vec<Outcome> {
    if variant == Variant::Fifo {
        // one bound for all tasks
        let o = analyse(ts, variant, 0, repr);
        return vec![o; ts.tasks.len()];
    }
    (0..ts.tasks.len())
        .map(|i| analyse(ts, variant, i, repr))
        .collect()
}
