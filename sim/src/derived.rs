//! C12: curves derived from traces and from other arrival bounds, and the
//! `delta_min_iter` duality.

use response_time_analysis::arrival::{
    self, delta_min_iter, ArrivalBound, ArrivalCurvePrefix, Periodic, Sporadic,
};
use response_time_analysis::time::Offset;

use crate::analysis::guarded;
use crate::desc::{d, du, parse_arrival, ArrDesc};
use crate::gen::{dmin_of_trace, random_trace};
use crate::harness::{components_json, finish, Options};
use crate::json::Json;
use crate::release::Adm;
use crate::rng::{hash_str, Fingerprint, Rng};
use crate::stats::{run_parallel_then, Acc, Distinct, Report};
use crate::streams::{first_overfull_window, gen_stream, parse_stream, stream_admissible, Stream};

/// The delta-min vector of a `Curve`, read through its `Debug` output (the only public view).
pub fn curve_vector(c: &arrival::Curve) -> Vec<u64> {
    let text = format!("{:?}", c);
    let mut out = Vec::new();
    let mut rest = text.as_str();
    while let Some(pos) = rest.find("val: ") {
        rest = &rest[pos + 5..];
        let end = rest.find(|ch: char| !ch.is_ascii_digit()).unwrap_or(rest.len());
        if let Ok(v) = rest[..end].parse::<u64>() {
            out.push(v);
        }
        rest = &rest[end..];
    }
    out
}

/// The largest recorded minimum distance of a `Curve` through the public API (`min_distance`
/// clamps its argument to the recorded range); `None` for a curve without any entry.
pub fn largest_distance(c: &arrival::Curve) -> Option<u64> {
    guarded(|| du(c.min_distance(usize::MAX)))
}

#[derive(Clone, Debug, PartialEq, Eq)]
pub enum Derivation {
    FromArrivalBound(usize),
    FromArrivalBoundUntil(u64),
    /// `Curve::from(Periodic)` / `Curve::from(Sporadic)` / `Curve::from(&ArrivalCurvePrefix)`
    FromImpl,
    PrefixUntil(u64),
}

impl Derivation {
    pub fn text(&self) -> String {
        match self {
            Derivation::FromArrivalBound(n) => format!("from_arrival_bound {}", n),
            Derivation::FromArrivalBoundUntil(h) => format!("from_arrival_bound_until {}", h),
            Derivation::FromImpl => "from_impl".into(),
            Derivation::PrefixUntil(h) => format!("prefix_until {}", h),
        }
    }
    pub fn parse(s: &str) -> Option<Derivation> {
        let t: Vec<&str> = s.split_whitespace().collect();
        match t.first().copied()? {
            "from_arrival_bound" => Some(Derivation::FromArrivalBound(t.get(1)?.parse().ok()?)),
            "from_arrival_bound_until" => {
                Some(Derivation::FromArrivalBoundUntil(t.get(1)?.parse().ok()?))
            }
            "from_impl" => Some(Derivation::FromImpl),
            "prefix_until" => Some(Derivation::PrefixUntil(t.get(1)?.parse().ok()?)),
            _ => None,
        }
    }
}

/// Build the derived object; returns it with the covered prefix (largest recorded minimum
/// distance, respectively the horizon).
pub fn derive(src: &ArrDesc, how: &Derivation) -> Option<(Box<dyn ArrivalBound>, u64)> {
    let ab = src.build();
    match how {
        Derivation::FromArrivalBound(n) => {
            let c = arrival::Curve::from_arrival_bound(&ab, *n);
            let cov = largest_distance(&c)?;
            if cov == 0 {
                // the requested prefix covers only simultaneous arrivals: an all-zero delta-min
                // vector describes an unbounded burst, for which the library documents no meaning
                return None;
            }
            Some((Box::new(c), cov))
        }
        Derivation::FromArrivalBoundUntil(h) => {
            let c = arrival::Curve::from_arrival_bound_until(&ab, d(*h));
            let cov = largest_distance(&c)?;
            if cov == 0 {
                return None;
            }
            Some((Box::new(c), cov))
        }
        Derivation::FromImpl => {
            let c: arrival::Curve = match src {
                ArrDesc::Periodic(t) => arrival::Curve::from(Periodic::new(d(*t))),
                ArrDesc::Sporadic(t, j) => arrival::Curve::from(Sporadic::new(d(*t), d(*j))),
                ArrDesc::Prefix(h, steps) => {
                    let p = ArrivalCurvePrefix::new(d(*h), steps.iter().map(|(x, n)| (d(*x), *n)).collect());
                    if steps.len() % 2 == 0 {
                        arrival::Curve::from(&p)
                    } else {
                        arrival::Curve::from(p)
                    }
                }
                _ => return None,
            };
            let cov = largest_distance(&c)?;
            Some((Box::new(c), cov))
        }
        Derivation::PrefixUntil(h) => {
            let p = ArrivalCurvePrefix::from_arrival_bound_until(&ab, d(*h));
            Some((Box::new(p), *h))
        }
    }
}

/// Range of δ in which the source's `number_arrivals` is the exact maximum of its documented
/// process (None = everywhere).
pub fn exact_range(src: &ArrDesc) -> Option<u64> {
    match src {
        ArrDesc::Periodic(_) | ArrDesc::Sporadic(..) | ArrDesc::Extrap(_) | ArrDesc::Never => None,
        // no deterministic process at all: the stream checks are skipped for such sources
        ArrDesc::Poisson(..) => Some(0),
        ArrDesc::User(..) => None,
        ArrDesc::Curve(v) => Some(*v.last().unwrap_or(&0)),
        ArrDesc::Prefix(h, _) => Some(*h),
        ArrDesc::Jittered(a, j) | ArrDesc::Propagated(a, j) => {
            exact_range(a).map(|r| r.saturating_sub(*j))
        }
        ArrDesc::Rc(a) => exact_range(a),
        ArrDesc::Vec(v) | ArrDesc::Slice(v) => v.iter().map(exact_range).fold(None, |acc, r| match (acc, r) {
            (None, x) => x,
            (x, None) => x,
            (Some(a), Some(b)) => Some(a.min(b)),
        }),
        ArrDesc::SumOf(a, b) => match (exact_range(a), exact_range(b)) {
            (None, x) | (x, None) => x,
            (Some(a), Some(b)) => Some(a.min(b)),
        },
    }
}

fn replay_text(kind: &str, model: &ArrDesc, extra: &str, expect: &str, note: &str) -> String {
    format!(
        "rtasim-replay 1\nproperty C12\nengine derived\nkind {}\nmodel {}\n{}expect {}\nnote {}\n",
        kind, model, extra, expect, note
    )
}

/// A source that never releases anything (structurally).
pub fn never_releases(m: &ArrDesc) -> bool {
    match m {
        ArrDesc::Never => true,
        ArrDesc::Jittered(a, _) | ArrDesc::Propagated(a, _) | ArrDesc::Rc(a) => never_releases(a),
        ArrDesc::Vec(v) | ArrDesc::Slice(v) => v.iter().all(never_releases),
        ArrDesc::SumOf(a, b) => never_releases(a) && never_releases(b),
        ArrDesc::Prefix(_, steps) => steps.is_empty(),
        _ => false,
    }
}

/// Does the source contain a probabilistic bound (no deterministic event process)?
pub fn has_poisson(m: &ArrDesc) -> bool {
    match m {
        ArrDesc::Poisson(..) => true,
        ArrDesc::Jittered(a, _) | ArrDesc::Propagated(a, _) | ArrDesc::Rc(a) => has_poisson(a),
        ArrDesc::Vec(v) | ArrDesc::Slice(v) => v.iter().any(has_poisson),
        ArrDesc::SumOf(a, b) => has_poisson(a) || has_poisson(b),
        _ => false,
    }
}

/// `ApproximatedPoisson` sources: `number_arrivals(1)` may be 0, the first step may lie at
/// delta > 1 and jump by several jobs (alone, doubled, or next to a periodic model).  Rates are
/// kept small: the library's naive evaluation does not terminate once rate * delta exceeds what
/// a factorial in f64 can represent.
fn poisson_source(rng: &mut Rng) -> ArrDesc {
    let p = ArrDesc::Poisson(rng.range(20, 150), *rng.pick(&[1u64, 10, 100, 500, 2000]));
    match rng.below(4) {
        0 => p,
        1 => ArrDesc::Vec(vec![p.clone(), p]),
        2 => ArrDesc::Vec(vec![p, ArrDesc::Poisson(rng.range(20, 150), 500)]),
        _ => ArrDesc::SumOf(Box::new(p), Box::new(ArrDesc::Periodic(rng.range(20, 200)))),
    }
}

pub fn random_source(rng: &mut Rng) -> ArrDesc {
    let period = rng.range(2, 40);
    if rng.chance(1, 16) {
        return poisson_source(rng);
    }
    if rng.chance(1, 20) {
        // a user-defined model (default brute-force `steps_iter`, steps that jump by k jobs)
        let k = rng.range(1, 4);
        let t = period * k;
        let user = ArrDesc::User(t, k, if rng.chance(1, 2) { 0 } else { rng.range(1, (t / 2).max(1)) });
        return match rng.below(3) {
            0 => user,
            1 => ArrDesc::Jittered(Box::new(user), rng.below(period)),
            _ => ArrDesc::Vec(vec![user, ArrDesc::Sporadic(period * 2, rng.below(period))]),
        };
    }
    if rng.chance(1, 40) {
        // a source that never releases anything (alone or as a member)
        return match rng.below(3) {
            0 => ArrDesc::Never,
            1 => ArrDesc::Vec(vec![ArrDesc::Never, ArrDesc::Never]),
            _ => ArrDesc::Jittered(Box::new(ArrDesc::Never), rng.below(20)),
        };
    }
    match rng.below(12) {
        0 => ArrDesc::Periodic(period),
        1..=3 => {
            let j = *rng.pick(&[0, period / 2, period, 2 * period + 3]);
            ArrDesc::Sporadic(period, j)
        }
        4..=6 => ArrDesc::Curve(crate::gen::random_dmin(rng, period)),
        7..=8 => ArrDesc::Extrap(crate::gen::random_dmin(rng, period)),
        9 => crate::gen::prefix_from_sporadic(period, rng.below(period + 1), period * rng.range(1, 4) + rng.below(period)),
        10 => ArrDesc::Jittered(Box::new(ArrDesc::Sporadic(period, rng.below(period))), rng.below(2 * period)),
        _ => ArrDesc::Propagated(Box::new(ArrDesc::Extrap(crate::gen::random_dmin(rng, period))), rng.below(period)),
    }
}

pub struct DerivedShared<'a> {
    pub root: u64,
    pub fps: &'a Distinct,
    pub nontrivial: &'a Distinct,
    pub streams_per_case: u64,
}

/// (a) trace → curve
fn trace_case(sh: &DerivedShared, k: u64, rng: &mut Rng, acc: &mut Acc) {
    // the trace is a recorded history: a stream of some model, or a raw bursty trace
    let (trace, origin) = if rng.chance(1, 2) {
        let period = rng.range(1, 30);
        let n = rng.range(2, 80) as usize;
        (random_trace(rng, period, n), "raw trace".to_string())
    } else {
        let m = crate::streams::random_model(rng);
        let mut stats = [0u64; 6];
        let s = gen_stream(&m, rng.range(40, 500), 120, rng, &mut stats, false);
        (s.events(), format!("stream of {}", m))
    };
    let prefix_jobs = rng.range(1, 12) as usize;
    if trace.len() < 2 {
        acc.counters.inc("probe.trace_too_short_skipped");
        return;
    }
    let own = dmin_of_trace(&trace, prefix_jobs);
    if own.last().copied().unwrap_or(0) == 0 {
        // an all-zero delta-min vector describes an unbounded burst; outside "realisable"
        acc.counters.inc("probe.trace_unbounded_burst_skipped");
        return;
    }
    acc.counters.inc("runs");
    acc.counters.inc("case.from_trace");
    acc.counters.add("events", trace.len() as u64);
    acc.counters.add("sim_ticks", *trace.last().unwrap());
    let simul = trace.windows(2).filter(|w| w[0] == w[1]).count() as u64;
    acc.counters.add("fault.simultaneous_events", simul);
    let mut fp = Fingerprint::new();
    fp.add(prefix_jobs as u64);
    for e in &trace {
        fp.add(*e);
    }
    let fpv = fp.finish();
    sh.fps.insert(fpv);
    acc.digest_add(fpv);
    if trace.len() > prefix_jobs + 1 {
        // windows beyond the recorded prefix exist
        sh.nontrivial.insert(fpv);
        acc.counters.inc("runs_nontrivial");
    }
    let tr = trace.clone();
    let res = guarded(move || {
        let c = arrival::Curve::from_trace(tr.iter().map(|t| Offset::from(*t)), prefix_jobs);
        first_overfull_window(&c, &tr).map(|w| (w, curve_vector(&c)))
    });
    let stream = Stream::Leaf(trace.clone());
    match res {
        None => acc.report(Report {
            order: (k, 0),
            key: "from_trace panics".into(),
            summary: format!("Curve::from_trace panicked (prefix_jobs={}, {} events)", prefix_jobs, trace.len()),
            replay: replay_text("trace", &ArrDesc::Never, &format!("stream {}\nprefix_jobs {}\n", stream, prefix_jobs), "library call panics", &format!("seed={} case={} origin={}", sh.root, k, origin)),
        }),
        Some(Some(((i, j, allowed), vec))) => acc.report(Report {
            order: (k, 0),
            key: "from_trace undercounts".into(),
            summary: format!(
                "Curve::from_trace(prefix_jobs={}) = {:?} allows {} events in a window of length {}, the trace has {} in [{}, {}]",
                prefix_jobs, vec, allowed, trace[j] - trace[i] + 1, j - i + 1, trace[i], trace[j]
            ),
            replay: replay_text("trace", &ArrDesc::Never, &format!("stream {}\nprefix_jobs {}\n", stream, prefix_jobs), &format!("from={} to={} events={} allowed={}", trace[i], trace[j], j - i + 1, allowed), &format!("seed={} case={} origin={}", sh.root, k, origin)),
        }),
        Some(None) => {}
    }
    acc.sample((k, 0), || {
        let mut j = Json::obj();
        j.set("case", Json::str("from_trace"));
        j.set("origin", Json::str(origin.clone()));
        j.set("prefix_jobs", Json::Int(prefix_jobs as i128));
        j.set("trace", Json::str(stream.to_string()));
        j
    });
}

#[derive(Debug)]
pub enum DerivedFail {
    Panic,
    NotExact { delta: u64, src: usize, derived: usize },
    NotDominating { delta: u64, src: usize, derived: usize },
}

/// Pointwise part (ride-along): equality inside min(covered prefix, exact range), domination
/// wherever the source is exact, up to `upto`.
pub fn compare_pointwise(src: &ArrDesc, how: &Derivation, upto_factor: u64) -> Result<(u64, u64), DerivedFail> {
    let s2 = src.clone();
    let h2 = how.clone();
    let res = guarded(move || {
        let sb = s2.build();
        let (db, cov) = match derive(&s2, &h2) {
            Some(x) => x,
            None => return Ok((0, 0)),
        };
        let ex = exact_range(&s2);
        let upto = (cov * upto_factor + 50).min(6000);
        for delta in 0..=upto {
            let a = sb.number_arrivals(d(delta));
            let b = db.number_arrivals(d(delta));
            let src_exact_here = ex.map(|r| delta <= r).unwrap_or(true);
            if delta <= cov && src_exact_here && a != b {
                return Err(DerivedFail::NotExact { delta, src: a, derived: b });
            }
            if src_exact_here && b < a {
                return Err(DerivedFail::NotDominating { delta, src: a, derived: b });
            }
        }
        Ok((cov, upto))
    });
    match res {
        None => Err(DerivedFail::Panic),
        Some(r) => r,
    }
}

fn derived_case(sh: &DerivedShared, k: u64, rng: &mut Rng, acc: &mut Acc) {
    let src = random_source(rng);
    let how = match rng.below(10) {
        0..=2 => Derivation::FromArrivalBound(rng.range(1, 30) as usize),
        3..=5 => Derivation::FromArrivalBoundUntil(rng.range(1, 400)),
        6..=7 => Derivation::PrefixUntil(rng.range(1, 400)),
        _ => {
            if matches!(src, ArrDesc::Periodic(_) | ArrDesc::Sporadic(..) | ArrDesc::Prefix(..)) {
                Derivation::FromImpl
            } else {
                Derivation::FromArrivalBound(rng.range(1, 30) as usize)
            }
        }
    };
    // a delta-min `Curve` cannot describe a source that never releases two jobs (its constructor
    // asserts a non-empty vector): only the step-based prefix is derived from such sources
    let silent = never_releases(&src);
    let how = if silent {
        Derivation::PrefixUntil(rng.range(1, 400))
    } else {
        how
    };
    let probabilistic = has_poisson(&src);
    let how = if probabilistic {
        // bounded horizons only (see `poisson_source`)
        match how {
            Derivation::PrefixUntil(h) => Derivation::PrefixUntil(h.min(300)),
            Derivation::FromArrivalBoundUntil(h) => Derivation::FromArrivalBoundUntil(h.min(300)),
            _ => Derivation::FromArrivalBoundUntil(rng.range(1, 300)),
        }
    } else {
        how
    };
    if probabilistic {
        acc.counters.inc("case.probabilistic_source");
    }
    match &how {
        Derivation::FromArrivalBound(_) => acc.counters.inc("case.from_arrival_bound"),
        Derivation::FromArrivalBoundUntil(_) => acc.counters.inc("case.from_arrival_bound_until"),
        Derivation::FromImpl => acc.counters.inc("case.from_impl"),
        Derivation::PrefixUntil(_) => acc.counters.inc("case.prefix_from_arrival_bound_until"),
    }
    let extra = format!("derive {}\n", how.text());
    let note = format!("seed={} case={}", sh.root, k);
    // pointwise ride-along
    let (cov, _upto) = match compare_pointwise(&src, &how, 6) {
        Ok((0, 0)) => {
            acc.counters.inc("probe.degenerate_derivation_skipped");
            return;
        }
        Ok(x) => x,
        Err(DerivedFail::Panic) => {
            acc.report(Report {
                order: (k, 1),
                key: format!("derived {} panics", how.text().split(' ').next().unwrap_or("")),
                summary: format!("{} of {}: library call panicked", how.text(), src),
                replay: replay_text("derived", &src, &extra, "library call panics", &note),
            });
            return;
        }
        Err(DerivedFail::NotExact { delta, src: a, derived: b }) => {
            acc.counters.inc("runs");
            acc.report(Report {
                order: (k, 1),
                key: "derived not exact on covered prefix".into(),
                summary: format!("{} of {}: at delta={} inside the covered prefix the source says {} and the derived object {}", how.text(), src, delta, a, b),
                replay: replay_text("derived", &src, &extra, &format!("delta={} source={} derived={} (must coincide)", delta, a, b), &note),
            });
            return;
        }
        Err(DerivedFail::NotDominating { delta, src: a, derived: b }) => {
            acc.counters.inc("runs");
            acc.report(Report {
                order: (k, 1),
                key: "derived smaller than source".into(),
                summary: format!("{} of {}: at delta={} the source says {} but the derived object only {}", how.text(), src, delta, a, b),
                replay: replay_text("derived", &src, &extra, &format!("delta={} source={} derived={} (must dominate)", delta, a, b), &note),
            });
            return;
        }
    };
    if probabilistic {
        // no deterministic event process: the pointwise comparison is all there is
        acc.counters.inc("runs");
        let fpv = hash_str(&format!("poisson/{}/{}", src, how.text()));
        sh.fps.insert(fpv);
        acc.digest_add(fpv);
        return;
    }
    // stream refinement, source → derived: every documented stream of the source is admissible
    // for the derived object, far beyond the covered prefix
    let horizon = (cov * 6 + 60).min(3000);
    for sidx in 0..sh.streams_per_case {
        let mut stats = [0u64; 6];
        let stream = gen_stream(&src, horizon, 200, rng, &mut stats, sidx == 0);
        if let Err(e) = stream_admissible(&src, &stream) {
            eprintln!("HARNESS-ERROR: event source left its documented process ({}): {}", src, e);
            std::process::exit(2);
        }
        let ev = stream.events();
        acc.counters.inc("runs");
        acc.counters.add("events", ev.len() as u64);
        acc.counters.add("sim_ticks", ev.last().copied().unwrap_or(0));
        acc.counters.add("fault.jitter_delay", stats[0]);
        acc.counters.add("fault.gap_stretch", stats[1]);
        let mut fp = Fingerprint::new();
        fp.add(hash_str(&src.to_string()));
        fp.add(hash_str(&how.text()));
        for e in &ev {
            fp.add(*e);
        }
        let fpv = fp.finish();
        sh.fps.insert(fpv);
        acc.digest_add(fpv);
        if ev.last().copied().unwrap_or(0) > cov {
            sh.nontrivial.insert(fpv);
            acc.counters.inc("runs_nontrivial");
        }
        let s2 = src.clone();
        let h2 = how.clone();
        let ev2 = ev.clone();
        let res = guarded(move || {
            let (db, _) = derive(&s2, &h2)?;
            first_overfull_window(&*db, &ev2)
        });
        if let Some(Some((i, j, allowed))) = res {
            acc.report(Report {
                order: (k, 10 + sidx),
                key: "derived does not bound the source's streams".into(),
                summary: format!(
                    "{} of {}: a stream of the source has {} events in [{}, {}] but the derived object allows {}",
                    how.text(), src, j - i + 1, ev[i], ev[j], allowed
                ),
                replay: replay_text("derived-stream", &src, &format!("{}stream {}\n", extra, stream), &format!("from={} to={} events={} allowed={}", ev[i], ev[j], j - i + 1, allowed), &note),
            });
            return;
        }
        acc.sample((k, sidx), || {
            let mut j = Json::obj();
            j.set("case", Json::str(how.text()));
            j.set("source", Json::str(src.to_string()));
            j.set("covered_prefix", Json::Int(cov as i128));
            j.set("stream", Json::str(stream.to_string()));
            j
        });
    }
    // derived → source inside the covered prefix: the dense stream of the derived object
    let s2 = src.clone();
    let h2 = how.clone();
    let res = guarded(move || {
        let sb = s2.build();
        let (db, cov) = derive(&s2, &h2)?;
        let adm = Adm::tabulate(&*db, cov + 2, 200);
        let dense = adm.dense(cov + 1, 200);
        for i in 0..dense.len() {
            for j in i..dense.len() {
                let len = dense[j] - dense[i] + 1;
                if len > cov {
                    break;
                }
                let allowed = sb.number_arrivals(d(len));
                if j - i + 1 > allowed {
                    return Some((dense.clone(), i, j, allowed));
                }
            }
        }
        None
    });
    acc.counters.inc("probe.dense_derived_stream_checked_against_source");
    if let Some(Some((dense, i, j, allowed))) = res {
        if exact_range(&src).map(|r| dense[j] - dense[i] + 1 <= r).unwrap_or(true) {
            acc.report(Report {
                order: (k, 2),
                key: "derived admits more than the source inside the covered prefix".into(),
                summary: format!(
                    "{} of {}: the derived object admits {} events in a window of length {} (inside the covered prefix), the source only {}",
                    how.text(), src, j - i + 1, dense[j] - dense[i] + 1, allowed
                ),
                replay: replay_text("derived", &src, &extra, &format!("delta={} (dense stream of the derived object)", dense[j] - dense[i] + 1), &note),
            });
        }
    }
}

#[derive(Debug)]
pub struct DualFail {
    pub n: usize,
    pub x: u64,
    pub eta_x: usize,
    pub eta_x1: usize,
}

pub fn duality_check(model: &ArrDesc, items: usize) -> Option<Result<usize, DualFail>> {
    let m = model.clone();
    guarded(move || {
        let ab = m.build();
        let mut checked = 0;
        let mut expect_n = 0usize;
        for (n, x) in delta_min_iter(&ab).take(items) {
            if n != expect_n {
                return Err(DualFail { n, x: du(x), eta_x: usize::MAX, eta_x1: expect_n });
            }
            expect_n += 1;
            if n < 2 {
                continue;
            }
            let x = du(x);
            let below = ab.number_arrivals(d(x));
            let at = ab.number_arrivals(d(x + 1));
            if !(at >= n && n > below) {
                return Err(DualFail { n, x, eta_x: below, eta_x1: at });
            }
            checked += 1;
        }
        Ok(checked)
    })
}

fn duality_case(sh: &DerivedShared, k: u64, rng: &mut Rng, acc: &mut Acc) {
    let model = if rng.chance(1, 2) {
        random_source(rng)
    } else {
        crate::streams::random_model(rng)
    };
    acc.counters.inc("runs");
    acc.counters.inc("case.delta_min_iter");
    let fpv = hash_str(&format!("dual/{}", model));
    sh.fps.insert(fpv);
    acc.digest_add(fpv);
    let items = rng.range(4, 40) as usize;
    match duality_check(&model, items) {
        None => acc.report(Report {
            order: (k, 0),
            key: "delta_min_iter panics".into(),
            summary: format!("delta_min_iter of {} panicked", model),
            replay: replay_text("dual", &model, &format!("items {}\n", items), "library call panics", &format!("seed={} case={}", sh.root, k)),
        }),
        Some(Err(f)) => acc.report(Report {
            order: (k, 0),
            key: "delta_min_iter not dual".into(),
            summary: format!(
                "delta_min_iter of {} reports ({}, {}) but number_arrivals({}) = {} and number_arrivals({}) = {}",
                model, f.n, f.x, f.x, f.eta_x, f.x + 1, f.eta_x1
            ),
            replay: replay_text("dual", &model, &format!("items {}\n", items), &format!("n={} x={} eta(x)={} eta(x+1)={}", f.n, f.x, f.eta_x, f.eta_x1), &format!("seed={} case={}", sh.root, k)),
        }),
        Some(Ok(c)) => {
            acc.counters.add("probe.dual_items_checked", c as u64);
            if c > 0 {
                sh.nontrivial.insert(fpv);
                acc.counters.inc("runs_nontrivial");
            }
        }
    }
}

pub fn c12_item(sh: &DerivedShared, k: u64, acc: &mut Acc, note: &dyn Fn(&str)) {
    let mut rng = Rng::new(Rng::run_seed(sh.root, "C12", k));
    note(&format!("C12 case#{}", k));
    match k % 4 {
        0 => trace_case(sh, k, &mut rng, acc),
        1 | 2 => derived_case(sh, k, &mut rng, acc),
        _ => duality_case(sh, k, &mut rng, acc),
    }
}

pub fn run_c12(opt: &Options) -> i32 {
    let t0 = std::time::Instant::now();
    let (cases, per) = if opt.thorough() {
        (opt.scaled(5_000_000), 12u64)
    } else {
        (opt.scaled(300_000), 4u64)
    };
    let fps = Distinct::new(30);
    let nontrivial = Distinct::new(30);
    let sh = DerivedShared {
        root: opt.seed,
        fps: &fps,
        nontrivial: &nontrivial,
        streams_per_case: per,
    };
    let fin = |mut acc: Acc| -> i32 {
        let wall = t0.elapsed().as_secs_f64();
        let mut cov = Json::obj();
        cov.set("evaluations", Json::Int(acc.counters.get("runs") as i128));
        cov.set("distinct_nontrivial", Json::Int(nontrivial.count() as i128));
        cov.set(
            "rule",
            Json::str(
                "one evaluation = (a) one recorded event trace (raw bursty trace or a stream of a \
                 random model) fed to Curve::from_trace and every window of the trace counted against \
                 the inferred curve; (b) one event stream of a source model's documented process \
                 checked in every window against an object derived from that model \
                 (from_arrival_bound(_until), From<Periodic|Sporadic|ArrivalCurvePrefix>, \
                 ArrivalCurvePrefix::from_arrival_bound_until), far beyond the covered prefix, plus the \
                 dense stream of the derived object against the source inside the prefix and the \
                 pointwise comparison along the scan; (c) one model whose delta_min_iter items are \
                 checked for duality with number_arrivals. distinct = distinct fingerprints of \
                 (case, model, event vector); non-trivial = the history extends beyond the recorded / \
                 covered prefix (a, b) or at least one n >= 2 item was checked (c)",
            ),
        );
        cov.set("distinct_cases", Json::Int(fps.count() as i128));
        cov.set("simulated_time_ticks", Json::Int(acc.counters.get("sim_ticks") as i128));
        cov.set(
            "components",
            components_json(
                &["arrival::Curve::{from_trace, from_arrival_bound, from_arrival_bound_until, From<Periodic>, From<Sporadic>, From<&ArrivalCurvePrefix>}, ArrivalCurvePrefix::from_arrival_bound_until, arrival::delta_min_iter, number_arrivals of every source (real)"],
                &["event sources / trace recorder (stubs, sim/src/streams.rs, gen.rs)"],
            ),
        );
        let out = finish(
            opt,
            &mut acc,
            wall,
            cov,
            &[
                "pointwise domination is demanded only where the source's number_arrivals is exact (Periodic, Sporadic, ExtrapolatingCurve, a Curve inside its own recorded range, an ArrivalCurvePrefix inside its horizon); beyond a non-extrapolated source's own prefix both objects are loose bounds of the same streams (DESIGN.md 3.8 scope decision)",
                "traces with fewer than two events or whose inferred delta-min vector ends in 0 (unbounded burst) are outside 'realisable' and skipped (counted)",
            ],
            &|r: &Report| (r.replay.clone(), r.summary.clone()),
        );
        out.exit_code
    };
    run_parallel_then(cases, opt.jobs, 60, |k, acc, note| c12_item(&sh, k, acc, note), &fin)
}

fn get_line(text: &str, head: &str) -> Option<String> {
    text.lines()
        .find_map(|l| l.trim().strip_prefix(head).map(|r| r.trim().to_string()))
}

pub fn replay_derived(path: &str, text: &str) -> i32 {
    let kind = get_line(text, "kind ").unwrap_or_default();
    let viol = |msg: String| -> i32 {
        println!("violation: {}", msg);
        println!("VIOLATION property=C12 replay={}", path);
        1
    };
    let model = match get_line(text, "model ").ok_or("no model".to_string()).and_then(|m| parse_arrival(&m)) {
        Ok(m) => m,
        Err(e) => {
            eprintln!("HARNESS-ERROR: {}", e);
            return 2;
        }
    };
    match kind.as_str() {
        "trace" => {
            let stream = match get_line(text, "stream ").ok_or("no stream".to_string()).and_then(|m| parse_stream(&m)) {
                Ok(m) => m,
                Err(e) => {
                    eprintln!("HARNESS-ERROR: {}", e);
                    return 2;
                }
            };
            let pj: usize = get_line(text, "prefix_jobs ").and_then(|x| x.parse().ok()).unwrap_or(1);
            let tr = stream.events();
            if tr.len() < 2 || dmin_of_trace(&tr, pj).last().copied().unwrap_or(0) == 0 {
                eprintln!("HARNESS-ERROR: trace in replay file is degenerate");
                return 2;
            }
            let tr2 = tr.clone();
            match guarded(move || {
                let c = arrival::Curve::from_trace(tr2.iter().map(|t| Offset::from(*t)), pj);
                first_overfull_window(&c, &tr2)
            }) {
                None => viol("Curve::from_trace panicked".into()),
                Some(Some((i, j, allowed))) => viol(format!(
                    "the trace has {} events in [{}, {}] but the inferred curve allows {}",
                    j - i + 1, tr[i], tr[j], allowed
                )),
                Some(None) => {
                    println!("replay: no violation");
                    0
                }
            }
        }
        "derived" | "derived-stream" => {
            let how = match get_line(text, "derive ").and_then(|x| Derivation::parse(&x)) {
                Some(h) => h,
                None => {
                    eprintln!("HARNESS-ERROR: no derivation");
                    return 2;
                }
            };
            if kind == "derived-stream" {
                let stream = match get_line(text, "stream ").ok_or("no stream".to_string()).and_then(|m| parse_stream(&m)) {
                    Ok(m) => m,
                    Err(e) => {
                        eprintln!("HARNESS-ERROR: {}", e);
                        return 2;
                    }
                };
                if let Err(e) = stream_admissible(&model, &stream) {
                    eprintln!("HARNESS-ERROR: stream not admissible for the source: {}", e);
                    return 2;
                }
                let ev = stream.events();
                let m = model.clone();
                let ev2 = ev.clone();
                return match guarded(move || derive(&m, &how).and_then(|(db, _)| first_overfull_window(&*db, &ev2))) {
                    None => viol("library call panicked".into()),
                    Some(Some((i, j, allowed))) => viol(format!(
                        "a stream of the source has {} events in [{}, {}] but the derived object allows {}",
                        j - i + 1, ev[i], ev[j], allowed
                    )),
                    Some(None) => {
                        println!("replay: no violation");
                        0
                    }
                };
            }
            match compare_pointwise(&model, &how, 6) {
                Err(DerivedFail::Panic) => viol("library call panicked".into()),
                Err(DerivedFail::NotExact { delta, src, derived }) => viol(format!(
                    "{} of {}: delta={} source={} derived={} inside the covered prefix",
                    how.text(), model, delta, src, derived
                )),
                Err(DerivedFail::NotDominating { delta, src, derived }) => viol(format!(
                    "{} of {}: delta={} source={} derived={} (derived smaller)",
                    how.text(), model, delta, src, derived
                )),
                Ok(_) => {
                    println!("replay: no violation");
                    0
                }
            }
        }
        "dual" => {
            let items: usize = get_line(text, "items ").and_then(|x| x.parse().ok()).unwrap_or(20);
            match duality_check(&model, items) {
                None => viol("delta_min_iter panicked".into()),
                Some(Err(f)) => viol(format!(
                    "delta_min_iter of {} reports ({}, {}) but eta({}) = {}, eta({}) = {}",
                    model, f.n, f.x, f.x, f.eta_x, f.x + 1, f.eta_x1
                )),
                Some(Ok(_)) => {
                    println!("replay: no violation");
                    0
                }
            }
        }
        other => {
            eprintln!("HARNESS-ERROR: unknown derived replay kind '{}'", other);
            2
        }
    }
}
