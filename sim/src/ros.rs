//! ROS 2 single-threaded executor stub + reservation server stub (ours).
//!
//! Executor model (made precise in DESIGN.md 3.4):
//!
//! ```text
//! each tick t:   deliver arrivals due at t to the per-callback FIFO queues
//!                if the reservation supplies slot t:
//!                    if no callback is in progress:            -- decision point (needs CPU)
//!                        if some timer has a queued instance:  run the highest-priority such timer
//!                        else:
//!                            if readySet is empty: readySet := {polled callbacks with a queued
//!                                                               instance}      -- polling point
//!                            if readySet non-empty: remove its highest-priority member, start
//!                                                   its oldest instance
//!                    execute one unit of the callback in progress; on its last unit: complete it
//!                        and (chains) enqueue an instance of its successor, visible at t+1
//! ```
//!
//! Reservation model: in every period `[kP, kP+P)` at least `Q` slots inside `[kP, kP+D)`;
//! where exactly is the adversary's choice, taken online (it may look at whether the executor
//! is busy).

use std::collections::VecDeque;
use std::fmt;

use crate::desc::{ArrDesc, CostDesc, SupDesc};
use crate::rng::{splitmix, Fingerprint};

#[derive(Clone, Copy, Debug, PartialEq, Eq, PartialOrd, Ord)]
pub enum CbKind {
    Timer,
    Polled,
}

#[derive(Clone, Debug, PartialEq, Eq, PartialOrd, Ord)]
pub struct CbDesc {
    pub kind: CbKind,
    /// numerically smaller = higher priority; unique within the kind
    pub prio: u32,
    pub wcet: u64,
    /// external arrival model (chain heads and independent callbacks); `None` for callbacks
    /// activated by the completion of their predecessor
    pub arr: Option<ArrDesc>,
    pub succ: Option<usize>,
    /// RTSS'21 analyses: is the polled callback's priority known to the analysis?
    pub known_prio: bool,
    /// job-cost model handed to the analyses; `None` = `Scalar(wcet)`
    pub cost: Option<CostDesc>,
    /// harness side: cyclic per-instance WCET pattern the execution-time source follows (empty =
    /// every instance may take up to `wcet`)
    pub pattern: Vec<u64>,
}

impl CbDesc {
    pub fn cost_desc(&self) -> CostDesc {
        self.cost.clone().unwrap_or(CostDesc::Scalar(self.wcet))
    }
}

impl fmt::Display for CbDesc {
    fn fmt(&self, f: &mut fmt::Formatter<'_>) -> fmt::Result {
        write!(
            f,
            "kind={} prio={} wcet={} arr={} succ={} known={} cost={} pat={}",
            match self.kind {
                CbKind::Timer => "timer",
                CbKind::Polled => "polled",
            },
            self.prio,
            self.wcet,
            self.arr.as_ref().map(|a| a.to_string()).unwrap_or_else(|| "-".into()),
            self.succ.map(|s| s.to_string()).unwrap_or_else(|| "-".into()),
            self.known_prio as u8,
            self.cost.as_ref().map(|c| c.to_string()).unwrap_or_else(|| "-".into()),
            if self.pattern.is_empty() {
                "-".to_string()
            } else {
                self.pattern.iter().map(|x| x.to_string()).collect::<Vec<_>>().join("+")
            }
        )
    }
}

pub fn parse_cb(rest: &str) -> Result<CbDesc, String> {
    let mut kind = None;
    let mut prio = 0u32;
    let mut wcet = None;
    let mut arr = None;
    let mut succ = None;
    let mut known = true;
    let mut cost = None;
    let mut pattern = Vec::new();
    for tok in rest.split_whitespace() {
        let (k, v) = tok.split_once('=').ok_or_else(|| format!("bad token '{}'", tok))?;
        match k {
            "kind" => {
                kind = Some(match v {
                    "timer" => CbKind::Timer,
                    "polled" => CbKind::Polled,
                    _ => return Err(format!("bad kind '{}'", v)),
                })
            }
            "prio" => prio = v.parse().map_err(|_| "bad prio")?,
            "wcet" => wcet = Some(v.parse::<u64>().map_err(|_| "bad wcet")?),
            "arr" => {
                if v != "-" {
                    arr = Some(crate::desc::parse_arrival(v)?)
                }
            }
            "succ" => {
                if v != "-" {
                    succ = Some(v.parse::<usize>().map_err(|_| "bad succ")?)
                }
            }
            "known" => known = v != "0",
            "cost" => {
                if v != "-" {
                    cost = Some(crate::desc::parse_cost(v)?)
                }
            }
            "pat" => {
                if v != "-" {
                    pattern = v
                        .split('+')
                        .map(|x| x.parse::<u64>().map_err(|e| e.to_string()))
                        .collect::<Result<Vec<u64>, String>>()?
                }
            }
            _ => return Err(format!("unknown callback attribute '{}'", k)),
        }
    }
    Ok(CbDesc {
        kind: kind.ok_or("callback without kind")?,
        prio,
        wcet: wcet.ok_or("callback without wcet")?,
        arr,
        succ,
        known_prio: known,
        cost,
        pattern,
    })
}

#[derive(Clone, Debug, PartialEq, Eq, PartialOrd, Ord)]
pub struct RosWorkload {
    pub cbs: Vec<CbDesc>,
    pub supply: SupDesc,
    pub limit: u64,
}

impl RosWorkload {
    /// callbacks with an external arrival model
    pub fn heads(&self) -> Vec<usize> {
        (0..self.cbs.len()).filter(|i| self.cbs[*i].arr.is_some()).collect()
    }
    /// the chain (sequence of callback indices) starting at `head`
    pub fn chain_of(&self, head: usize) -> Vec<usize> {
        let mut out = vec![head];
        let mut cur = head;
        while let Some(n) = self.cbs[cur].succ {
            if out.contains(&n) || n >= self.cbs.len() {
                break;
            }
            out.push(n);
            cur = n;
        }
        out
    }
    pub fn well_formed(&self) -> Result<(), String> {
        let n = self.cbs.len();
        let mut has_pred = vec![false; n];
        for (i, c) in self.cbs.iter().enumerate() {
            if let Some(sx) = c.succ {
                if sx >= n || sx == i {
                    return Err("bad successor".into());
                }
                if has_pred[sx] {
                    return Err("callback with two predecessors".into());
                }
                has_pred[sx] = true;
                if self.cbs[sx].arr.is_some() {
                    return Err("successor with its own arrival model".into());
                }
            }
            if c.wcet == 0 {
                return Err("zero WCET".into());
            }
        }
        for i in 0..n {
            if self.cbs[i].arr.is_none() && !has_pred[i] {
                return Err("callback without activation source".into());
            }
        }
        Ok(())
    }
}

/// One external event: arrival at the chain head at time `t`, with the actual execution cost
/// of every callback of the chain for this instance.
#[derive(Clone, Debug, PartialEq, Eq)]
pub struct SrcArrival {
    pub head: usize,
    pub t: u64,
    pub costs: Vec<u32>,
}

#[derive(Clone, Debug, PartialEq, Eq)]
pub enum SupPolicy {
    Early,
    Late,
    /// early in periods before `switch`, late from then on
    EarlyThenLate { switch: u64 },
    /// supply a non-forced slot with probability pct/100 (hash of salt and time)
    Random { pct: u64, salt: u64 },
    /// spend budget while the executor is idle, withhold it while the executor is busy
    AdaptiveWaste,
    /// like `Random`, but additionally hands out slots beyond the budget
    OverProvision { pct: u64, salt: u64 },
    /// explicit slots; beyond the end: early
    Script(Vec<bool>),
}

pub struct Server {
    q: u64,
    d: u64,
    p: u64,
    phase: u64,
    policy: SupPolicy,
    /// budget still to be delivered in the current period
    remaining: u64,
    started: bool,
    pub bits: Vec<bool>,
    pub stats: ServerStats,
}

#[derive(Default, Clone, Debug)]
pub struct ServerStats {
    pub early: u64,
    pub late_forced: u64,
    pub withheld_while_busy: u64,
    pub overprovisioned: u64,
    pub exhausted_mid_callback: u64,
}

impl Server {
    pub fn new(sup: &SupDesc, phase: u64, policy: SupPolicy) -> Server {
        let (q, d, p) = sup.qdp();
        Server {
            q,
            d,
            p,
            phase: phase % p,
            policy,
            remaining: 0,
            started: false,
            bits: Vec::new(),
            stats: ServerStats::default(),
        }
    }

    /// Does the reservation supply slot `t`?  `busy`: the executor has work; `running`: a
    /// callback is in progress.
    pub fn supplies(&mut self, t: u64, busy: bool, running: bool) -> bool {
        let o = (t + self.phase) % self.p;
        let period_idx = (t + self.phase) / self.p;
        if !self.started {
            self.started = true;
            // mid-period start: the part of the budget that could already have been delivered
            // before time 0 is gone (adversarial)
            self.remaining = self.q.saturating_sub(o);
            if o == 0 {
                self.remaining = self.q;
            }
        } else if o == 0 {
            self.remaining = self.q;
        }
        let before_deadline = o < self.d;
        let slots_left = if before_deadline { self.d - o } else { 0 };
        let forced = before_deadline && self.remaining > 0 && self.remaining >= slots_left;
        let may = before_deadline && self.remaining > 0;
        let h = |salt: u64| splitmix(salt ^ t.wrapping_mul(0x9E37_79B9_7F4A_7C15)) % 100;
        let mut over = false;
        let give = if forced {
            true
        } else {
            match &self.policy {
                SupPolicy::Early => may,
                SupPolicy::Late => false,
                SupPolicy::EarlyThenLate { switch } => may && period_idx < *switch,
                SupPolicy::Random { pct, salt } => may && h(*salt) < *pct,
                SupPolicy::AdaptiveWaste => may && !busy,
                SupPolicy::OverProvision { pct, salt } => {
                    if may {
                        h(*salt) < *pct
                    } else if h(*salt ^ 0x55) < *pct / 3 {
                        over = true;
                        true
                    } else {
                        false
                    }
                }
                SupPolicy::Script(bits) => match bits.get(t as usize) {
                    Some(b) => {
                        if *b && !may {
                            over = true;
                        }
                        *b
                    }
                    None => may,
                },
            }
        };
        if give {
            if may && !over {
                self.remaining -= 1;
                if forced {
                    self.stats.late_forced += 1;
                } else {
                    self.stats.early += 1;
                }
            } else {
                self.stats.overprovisioned += 1;
            }
        } else {
            if may && busy {
                self.stats.withheld_while_busy += 1;
            }
            if running {
                self.stats.exhausted_mid_callback += 1;
            }
        }
        self.bits.push(give);
        give
    }
}

/// Is the recorded slot vector a legal behaviour of the reservation (period grid shifted by
/// `phase`)?  Only complete periods inside the vector are checked.
pub fn supply_legal(bits: &[bool], sup: &SupDesc, phase: u64) -> Result<(), String> {
    let (q, d, p) = sup.qdp();
    let phase = phase % p;
    // period k covers [k*p - phase, k*p - phase + p)
    let mut k = if phase == 0 { 0 } else { 1 };
    loop {
        let start = (k * p) as i64 - phase as i64;
        if start < 0 {
            k += 1;
            continue;
        }
        let start = start as usize;
        if start + d as usize > bits.len() {
            break;
        }
        let c = bits[start..start + d as usize].iter().filter(|b| **b).count() as u64;
        if c < q {
            return Err(format!(
                "period starting at {} delivers only {} of {} slots before its deadline",
                start, c, q
            ));
        }
        k += 1;
    }
    Ok(())
}

#[derive(Clone, Debug)]
pub struct RosViolation {
    /// `Cb(i)`: own activation → completion of callback i; `Chain(head)`: source arrival →
    /// completion of the last callback
    pub entity: Entity,
    pub origin: u64,
    pub bound: u64,
    pub observed: u64,
    pub completed: bool,
}

#[derive(Clone, Copy, Debug, PartialEq, Eq, PartialOrd, Ord)]
pub enum Entity {
    Cb(usize),
    Chain(usize),
}

impl fmt::Display for Entity {
    fn fmt(&self, f: &mut fmt::Formatter<'_>) -> fmt::Result {
        match self {
            Entity::Cb(i) => write!(f, "cb:{}", i),
            Entity::Chain(h) => write!(f, "chain:{}", h),
        }
    }
}

#[derive(Default, Clone, Debug)]
pub struct ExecProbes {
    pub polling_points: u64,
    pub polling_points_nonempty: u64,
    pub timer_blocked_by_polled: u64,
    pub waited_across_2_polling_points: u64,
    pub poll_missed_by_one_tick: u64,
    pub budget_gap_inside_callback: u64,
    pub carry_in_instance_at_arrival: u64,
    pub decisions: u64,
}

pub struct ExecResult {
    /// per callback: max (completion − own activation)
    pub max_resp: Vec<u64>,
    /// per callback (meaningful for chain ends): max (completion − source arrival)
    pub max_chain_resp: Vec<u64>,
    pub completed: Vec<u64>,
    pub delayed_by_other: Vec<bool>,
    pub violation: Option<RosViolation>,
    pub fingerprint: u64,
    pub end_time: u64,
    pub probes: ExecProbes,
    pub server: ServerStats,
    pub bits: Vec<bool>,
}

struct Inst {
    src: usize, // index into arrivals
    pos: usize, // position in the chain
    activation: u64,
    origin: u64,
    polls_seen: u32,
}

pub struct ExecConfig<'a> {
    pub wl: &'a RosWorkload,
    pub arrivals: &'a [SrcArrival],
    pub phase: u64,
    pub policy: SupPolicy,
    /// bound on own activation → completion, per callback
    pub cb_bounds: &'a [Option<u64>],
    /// bound on source arrival → completion of the chain's last callback, per chain head
    pub chain_bounds: &'a [Option<u64>],
    pub time_cap: u64,
    pub stop_at_violation: bool,
}

/// `arrivals` must be sorted by time.
pub fn run_executor(cfg: &ExecConfig) -> ExecResult {
    let wl = cfg.wl;
    let n = wl.cbs.len();
    let mut server = Server::new(&wl.supply, cfg.phase, cfg.policy.clone());
    let mut queues: Vec<VecDeque<Inst>> = (0..n).map(|_| VecDeque::new()).collect();
    let mut ready: Vec<usize> = Vec::new();
    let mut in_progress: Option<(usize, Inst, u64, u64)> = None; // cb, inst, remaining, executed
    let mut res = ExecResult {
        max_resp: vec![0; n],
        max_chain_resp: vec![0; n],
        completed: vec![0; n],
        delayed_by_other: vec![false; n],
        violation: None,
        fingerprint: 0,
        end_time: 0,
        probes: ExecProbes::default(),
        server: ServerStats::default(),
        bits: Vec::new(),
    };
    // chain head of every callback (for chain bounds)
    let mut head_of = vec![usize::MAX; n];
    for h in wl.heads() {
        for c in wl.chain_of(h) {
            head_of[c] = h;
        }
    }
    let mut fp = Fingerprint::new();
    let mut next_arr = 0usize;
    let mut t = 0u64;
    let mut last_poll_time: Option<u64> = None;
    let note_violation = |res: &mut ExecResult, v: RosViolation| {
        if res.violation.is_none() {
            res.violation = Some(v);
        }
    };
    'outer: loop {
        // arrivals visible at t
        while next_arr < cfg.arrivals.len() && cfg.arrivals[next_arr].t <= t {
            let a = &cfg.arrivals[next_arr];
            if !queues[a.head].is_empty() || matches!(&in_progress, Some((c, ..)) if *c == a.head) {
                res.probes.carry_in_instance_at_arrival += 1;
            }
            if wl.cbs[a.head].kind == CbKind::Polled {
                if let Some(lp) = last_poll_time {
                    if lp + 1 == a.t && !ready.is_empty() {
                        res.probes.poll_missed_by_one_tick += 1;
                    }
                }
            }
            queues[a.head].push_back(Inst {
                src: next_arr,
                pos: 0,
                activation: a.t,
                origin: a.t,
                polls_seen: 0,
            });
            next_arr += 1;
        }
        let pending = queues.iter().any(|q| !q.is_empty());
        let running = in_progress.is_some();
        if !pending && !running && next_arr >= cfg.arrivals.len() {
            break;
        }
        if t >= cfg.time_cap {
            break;
        }
        let supplied = server.supplies(t, pending || running, running);
        if running && !supplied {
            res.probes.budget_gap_inside_callback += 1;
        }
        if supplied {
            if in_progress.is_none() {
                res.probes.decisions += 1;
                // timers first, with up-to-date information
                let mut pick: Option<usize> = None;
                for i in 0..n {
                    if wl.cbs[i].kind == CbKind::Timer && !queues[i].is_empty() {
                        if pick.map(|p| wl.cbs[i].prio < wl.cbs[p].prio).unwrap_or(true) {
                            pick = Some(i);
                        }
                    }
                }
                if pick.is_none() {
                    if ready.is_empty() {
                        // polling point
                        res.probes.polling_points += 1;
                        last_poll_time = Some(t);
                        for i in 0..n {
                            if wl.cbs[i].kind == CbKind::Polled && !queues[i].is_empty() {
                                ready.push(i);
                                for inst in queues[i].iter_mut() {
                                    inst.polls_seen += 1;
                                }
                            }
                        }
                        if !ready.is_empty() {
                            res.probes.polling_points_nonempty += 1;
                        }
                    }
                    if !ready.is_empty() {
                        let mut best = 0usize;
                        for k in 1..ready.len() {
                            if wl.cbs[ready[k]].prio < wl.cbs[ready[best]].prio {
                                best = k;
                            }
                        }
                        pick = Some(ready.remove(best));
                    }
                }
                if let Some(c) = pick {
                    let inst = queues[c].pop_front().unwrap();
                    let cost = cfg.arrivals[inst.src].costs[inst.pos] as u64;
                    if inst.polls_seen >= 2 {
                        res.probes.waited_across_2_polling_points += 1;
                    }
                    fp.add(t ^ ((c as u64) << 40) ^ ((inst.src as u64) << 48));
                    in_progress = Some((c, inst, cost, 0));
                }
            }
            if let Some((c, _, remaining, executed)) = in_progress.as_mut() {
                *remaining -= 1;
                *executed += 1;
                if wl.cbs[*c].kind == CbKind::Polled {
                    // a timer that is queued while a polled callback runs is blocked
                    for i in 0..n {
                        if wl.cbs[i].kind == CbKind::Timer && !queues[i].is_empty() {
                            res.probes.timer_blocked_by_polled += 1;
                            break;
                        }
                    }
                }
                if *remaining == 0 {
                    let (c, inst, _, executed) = in_progress.take().unwrap();
                    let now = t + 1;
                    let resp = now - inst.activation;
                    let chain_resp = now - inst.origin;
                    res.completed[c] += 1;
                    if resp > executed {
                        res.delayed_by_other[c] = true;
                    }
                    res.max_resp[c] = res.max_resp[c].max(resp);
                    res.max_chain_resp[c] = res.max_chain_resp[c].max(chain_resp);
                    fp.add(0xC0 ^ now ^ ((c as u64) << 40));
                    if let Some(b) = cfg.cb_bounds[c] {
                        if resp > b {
                            note_violation(
                                &mut res,
                                RosViolation {
                                    entity: Entity::Cb(c),
                                    origin: inst.activation,
                                    bound: b,
                                    observed: resp,
                                    completed: true,
                                },
                            );
                        }
                    }
                    match wl.cbs[c].succ {
                        Some(sx) => {
                            queues[sx].push_back(Inst {
                                src: inst.src,
                                pos: inst.pos + 1,
                                activation: now,
                                origin: inst.origin,
                                polls_seen: 0,
                            });
                        }
                        None => {
                            let h = head_of[c];
                            if h != usize::MAX {
                                if let Some(b) = cfg.chain_bounds[h] {
                                    if chain_resp > b {
                                        note_violation(
                                            &mut res,
                                            RosViolation {
                                                entity: Entity::Chain(h),
                                                origin: inst.origin,
                                                bound: b,
                                                observed: chain_resp,
                                                completed: true,
                                            },
                                        );
                                    }
                                }
                            }
                        }
                    }
                }
            }
        }
        t += 1;
        // monitors: incomplete instances whose bound has expired at time t
        if res.violation.is_none() {
            let check = |c: usize, inst: &Inst, res: &mut ExecResult| {
                if let Some(b) = cfg.cb_bounds[c] {
                    if t >= inst.activation + b {
                        note_violation(
                            res,
                            RosViolation {
                                entity: Entity::Cb(c),
                                origin: inst.activation,
                                bound: b,
                                observed: t - inst.activation,
                                completed: false,
                            },
                        );
                    }
                }
                let h = head_of[c];
                if h != usize::MAX {
                    if let Some(b) = cfg.chain_bounds[h] {
                        if t >= inst.origin + b {
                            note_violation(
                                res,
                                RosViolation {
                                    entity: Entity::Chain(h),
                                    origin: inst.origin,
                                    bound: b,
                                    observed: t - inst.origin,
                                    completed: false,
                                },
                            );
                        }
                    }
                }
            };
            for c in 0..n {
                if let Some(inst) = queues[c].front() {
                    check(c, inst, &mut res);
                }
            }
            if let Some((c, inst, _, _)) = &in_progress {
                check(*c, inst, &mut res);
            }
        }
        if res.violation.is_some() && cfg.stop_at_violation {
            break 'outer;
        }
    }
    res.end_time = t;
    res.fingerprint = fp.finish();
    res.server = server.stats.clone();
    res.bits = server.bits;
    res
}

pub fn bits_text(b: &[bool]) -> String {
    b.iter().map(|x| if *x { '1' } else { '0' }).collect()
}

pub fn parse_bits(s: &str) -> Vec<bool> {
    s.trim().chars().map(|c| c == '1').collect()
}
