//! Swarm-style input generators: arrival models, task sets, cost traces.

use crate::desc::ArrDesc;
use crate::rng::Rng;
use crate::uni::{TaskDesc, TaskSet};

/// delta-min vector of a trace (harness-side re-implementation; `out[i]` = minimum distance
/// between the first and last of `i + 2` consecutive events).
pub fn dmin_of_trace(t: &[u64], entries: usize) -> Vec<u64> {
    let mut out = Vec::new();
    for n in 2..(entries + 2) {
        if t.len() < n {
            break;
        }
        let mut best = u64::MAX;
        for i in 0..=(t.len() - n) {
            best = best.min(t[i + n - 1] - t[i]);
        }
        out.push(best);
    }
    out
}

/// A random event trace with bursts, roughly one event per `period`.
pub fn random_trace(rng: &mut Rng, period: u64, n: usize) -> Vec<u64> {
    let mut t = Vec::with_capacity(n);
    let mut now = rng.below(period + 1);
    let burstiness = rng.below(4); // 0: none
    for _ in 0..n {
        t.push(now);
        let gap = match rng.below(10) {
            0..=1 if burstiness >= 2 => 0,
            2 if burstiness >= 1 => rng.range(0, 2),
            3..=4 => period,
            5..=6 => rng.range(period.saturating_sub(period / 3).max(1), period + period / 3 + 1),
            7 => rng.range(1, period.max(1)),
            _ => rng.range(period, 2 * period + 1),
        };
        now += gap;
    }
    t
}

/// A delta-min prefix taken from a random trace (hence realisable and super-additive on the
/// recorded range); never all-zero.
pub fn random_dmin(rng: &mut Rng, period: u64) -> Vec<u64> {
    loop {
        let entries = rng.range(1, 8) as usize;
        let n = rng.range(entries as u64 + 1, 30) as usize;
        let tr = random_trace(rng, period, n);
        let v = dmin_of_trace(&tr, entries);
        if !v.is_empty() && *v.last().unwrap() > 0 {
            return v;
        }
    }
}

/// Which arrival-model families a swarm configuration enables.
#[derive(Clone, Debug)]
pub struct ArrSwarm {
    pub weights: [u64; 9],
    /// now and then a model that never releases anything
    pub allow_never: bool,
    /// now and then a user-defined model (only `number_arrivals` implemented: the trait's
    /// default brute-force `steps_iter` runs), alone, jittered or inside a superposition
    pub allow_user: bool,
}

impl ArrSwarm {
    pub fn random(rng: &mut Rng) -> ArrSwarm {
        // periodic, sporadic, curve, extrap, prefix, jittered, propagated, vec/sum, rc
        let base = [10u64, 30, 15, 15, 6, 8, 6, 5, 3];
        let mut w = [0u64; 9];
        for i in 0..9 {
            // each family is switched off in a third of the configurations
            w[i] = if rng.chance(1, 3) { 0 } else { base[i] };
        }
        if w.iter().sum::<u64>() == 0 {
            w[1] = 1;
        }
        ArrSwarm {
            weights: w,
            allow_never: true,
            allow_user: false,
        }
    }
    pub fn exact_only() -> ArrSwarm {
        ArrSwarm {
            weights: [20, 40, 0, 30, 0, 0, 0, 0, 0],
            allow_never: false,
            allow_user: false,
        }
    }
}

fn leaf_arrival(rng: &mut Rng, period: u64, kind: usize) -> ArrDesc {
    match kind {
        0 => ArrDesc::Periodic(period),
        1 => {
            let j = match rng.below(20) {
                0..=3 => 0,
                4..=7 => rng.range(0, period / 2 + 1),
                8..=11 => rng.range(0, period),
                12..=14 => rng.range(period, 2 * period),
                15 => period * rng.range(1, 4),          // an exact multiple of the period
                16 => period * rng.range(1, 4) - 1,      // jitter + 1 a multiple of the period
                17 => rng.range(2 * period, 20 * period), // far above the period
                _ => rng.range(0, 2 * period),
            };
            ArrDesc::Sporadic(period, j)
        }
        2 => ArrDesc::Curve(random_dmin(rng, period)),
        3 => ArrDesc::Extrap(random_dmin(rng, period)),
        _ => {
            let jitter = if rng.chance(1, 2) { 0 } else { rng.range(0, period) };
            let horizon = period * rng.range(1, 4) + rng.below(period);
            prefix_from_sporadic(period, jitter, horizon.max(1))
        }
    }
}

/// leaf kind for compositions (jittered clones, superpositions, Rc): all five leaf models
fn any_leaf(rng: &mut Rng) -> usize {
    rng.weighted(&[3, 6, 4, 4, 3])
}

/// ArrivalCurvePrefix description recorded (by the harness) from a jittered sporadic process.
pub fn prefix_from_sporadic(period: u64, jitter: u64, horizon: u64) -> ArrDesc {
    // η(δ) = ceil((δ + J) / T) for δ ≥ 1
    let eta = |delta: u64| -> usize {
        if delta == 0 {
            0
        } else {
            ((delta + jitter + period - 1) / period) as usize
        }
    };
    let mut steps = Vec::new();
    let mut last = 0usize;
    for delta in 1..=horizon {
        let n = eta(delta);
        if n > last {
            steps.push((delta, n));
            last = n;
        }
    }
    ArrDesc::Prefix(horizon, steps)
}

/// Two or three component sources (each of a fraction of the rate; now and then one that never
/// releases anything), handed over as a Vec, a boxed slice or nested `sum_of`.
fn superposition(rng: &mut Rng, period: u64) -> ArrDesc {
    let n = match rng.below(30) {
        0 => 0, // an empty superposition
        1 => 1,
        2..=10 => 3,
        _ => 2,
    };
    let mut parts = Vec::new();
    for _ in 0..n {
        if rng.chance(1, 8) {
            parts.push(ArrDesc::Never);
        } else {
            let pb = period * (n as u64).max(1) + rng.below(period + 1);
            let kb = any_leaf(rng);
            parts.push(leaf_arrival(rng, pb, kb));
        }
    }
    match rng.below(if parts.len() >= 2 { 3 } else { 2 }) {
        0 => ArrDesc::Vec(parts),
        1 => ArrDesc::Slice(parts),
        _ => {
            let mut it = parts.into_iter();
            let mut acc = it.next().unwrap();
            for p in it {
                acc = ArrDesc::SumOf(Box::new(acc), Box::new(p));
            }
            acc
        }
    }
}

pub fn random_arrival(rng: &mut Rng, period: u64, sw: &ArrSwarm) -> ArrDesc {
    if sw.allow_never && rng.chance(1, 60) {
        return ArrDesc::Never;
    }
    if sw.allow_user && rng.chance(1, 30) {
        let k = rng.range(1, 3);
        let t = period * k;
        // half of them with a second burst shortly after the first (steps at nearby lengths)
        let g = match rng.below(4) {
            0 | 1 => 0,
            2 => 1,
            _ => rng.range(1, (t / 2).max(1)),
        };
        let user = ArrDesc::User(if g > 0 { 2 * t } else { t }, k, g.min(t));
        return match rng.below(5) {
            0 | 1 => user,
            2 => ArrDesc::Jittered(Box::new(user), rng.range(0, period)),
            3 => ArrDesc::Vec(vec![user, ArrDesc::Periodic(period * rng.range(2, 5))]),
            _ => ArrDesc::Rc(Box::new(user)),
        };
    }
    let kind = rng.weighted(&sw.weights);
    match kind {
        0..=3 => leaf_arrival(rng, period, kind),
        4 => {
            let jitter = if rng.chance(1, 2) {
                0
            } else {
                rng.range(0, period)
            };
            let horizon = if rng.chance(1, 8) {
                rng.range(1, period) // a single step, or steps ending exactly at the horizon
            } else {
                period * rng.range(1, 4) + rng.below(period)
            };
            prefix_from_sporadic(period, jitter, horizon.max(1))
        }
        5 => {
            let inner = if rng.chance(1, 4) {
                // a jittered clone of a superposition (possibly with a silent component)
                superposition(rng, period)
            } else {
                let kk = any_leaf(rng);
                leaf_arrival(rng, period, kk)
            };
            let j = if rng.chance(1, 10) { 0 } else { rng.range(0, period) };
            let once = ArrDesc::Jittered(Box::new(inner), j);
            if rng.chance(1, 4) {
                ArrDesc::Jittered(Box::new(once), rng.range(0, period / 2 + 1))
            } else {
                once
            }
        }
        6 => {
            let kk = 2 + rng.index(3);
            let inner = leaf_arrival(rng, period, kk);
            ArrDesc::Propagated(Box::new(inner), rng.range(0, period))
        }
        7 => superposition(rng, period),
        _ => {
            let kk = any_leaf(rng);
            ArrDesc::Rc(Box::new(leaf_arrival(rng, period, kk)))
        }
    }
}

/// Random composition of `total` into between 1 and `max_parts` positive parts.
pub fn composition(rng: &mut Rng, total: u64, max_parts: u64) -> Vec<u64> {
    let parts = rng.range(1, max_parts.min(total).max(1));
    let mut cuts: Vec<u64> = Vec::new();
    while (cuts.len() as u64) < parts - 1 {
        let c = rng.range(1, total - 1);
        if !cuts.contains(&c) {
            cuts.push(c);
        }
    }
    cuts.sort();
    let mut out = Vec::new();
    let mut prev = 0;
    for c in cuts {
        out.push(c - prev);
        prev = c;
    }
    out.push(total - prev);
    out
}

#[derive(Clone, Debug)]
pub struct TaskSetSwarm {
    pub n_tasks: usize,
    pub util_pct: u64,
    pub max_period: u64,
    pub max_wcet: u64,
    pub prio_ties: bool,
    /// every task at the same priority level
    pub all_equal_prio: bool,
    /// every task a copy of the first one
    pub identical_tasks: bool,
    pub arr: ArrSwarm,
    pub limit: u64,
}

impl TaskSetSwarm {
    /// `wide`: a quarter of the configurations uses larger task sets and parameters
    pub fn random_wide(rng: &mut Rng, wide: bool) -> TaskSetSwarm {
        let mut sw = TaskSetSwarm::random(rng);
        if wide && rng.chance(1, 4) {
            sw.n_tasks = rng.range(5, 9) as usize;
            sw.max_period = *rng.pick(&[60u64, 120, 200]);
            sw.max_wcet = *rng.pick(&[10u64, 20]);
        }
        sw
    }

    pub fn random(rng: &mut Rng) -> TaskSetSwarm {
        let n_tasks = 1 + rng.weighted(&[6, 20, 30, 25, 12, 9, 1, 1, 1]);
        let util_pct = match rng.below(10) {
            0 => rng.range(20, 60),
            1..=5 => rng.range(60, 90),
            _ => rng.range(85, 100),
        };
        TaskSetSwarm {
            n_tasks,
            util_pct,
            max_period: *rng.pick(&[12u64, 24, 40, 60]),
            max_wcet: *rng.pick(&[3u64, 6, 10]),
            prio_ties: rng.chance(3, 10),
            all_equal_prio: rng.chance(1, 25),
            identical_tasks: rng.chance(1, 40),
            arr: {
                let mut a = ArrSwarm::random(rng);
                a.allow_user = true;
                a
            },
            limit: *rng.pick(&[60u64, 200, 600, 1500, 3000, 100_000]),
        }
    }
}

/// "Late coincidence" task sets: a few fast, light tasks (a step of the demand curve almost every
/// tick, i.e. a long search space) plus a few heavy tasks whose release jitter is chosen so that
/// their demand curves all step together at one late offset `x` of a long busy window.  The
/// decisive offset of the analyses then sits deep inside the search space instead of at or near
/// its start (one heavy task in six is detuned by one tick: near misses).
pub fn coincidence_taskset(rng: &mut Rng) -> TaskSet {
    let n_fast = rng.range(1, 3) as usize;
    let n_heavy = rng.range(2, 5) as usize;
    let x = match rng.below(3) {
        0 => rng.range(20, 200),
        1 => rng.range(100, 900),
        _ => rng.range(300, 2200),
    };
    let mut fast: Vec<u64> = (0..n_fast).map(|_| rng.range(2, 8)).collect();
    // fast utilisation (per mille) at most 650
    loop {
        let u: u64 = fast.iter().map(|p| 1000 / *p).sum();
        if u <= 650 {
            break;
        }
        let i = rng.index(fast.len());
        fast[i] += 1;
    }
    let u_fast: u64 = fast.iter().map(|p| 1000 / *p).sum();
    let u_target = match rng.below(4) {
        0 => rng.range(700, 850),
        1 | 2 => rng.range(850, 950),
        _ => rng.range(940, 990),
    };
    let u_heavy = u_target.saturating_sub(u_fast).max(120);
    let mut shares: Vec<u64> = (0..n_heavy).map(|_| rng.range(1, 10)).collect();
    let total: u64 = shares.iter().sum();
    for sh in shares.iter_mut() {
        *sh = (*sh * u_heavy) / total;
    }
    let n = n_fast + n_heavy;
    let mut prios: Vec<u32> = (0..n as u32).collect();
    rng.shuffle(&mut prios);
    let mut tasks = Vec::new();
    for (i, period) in fast.iter().enumerate() {
        let period = *period;
        let jitter = if rng.chance(1, 2) { 0 } else { rng.below(2 * period) };
        let arr = if jitter == 0 && rng.chance(1, 2) {
            ArrDesc::Periodic(period)
        } else {
            ArrDesc::Sporadic(period, jitter)
        };
        tasks.push(TaskDesc {
            arr,
            wcet: 1,
            prio: prios[i],
            deadline: rng.range(1, 3 * period),
            segs: vec![1],
            max_np: 1,
        });
    }
    for (h, share) in shares.iter().enumerate() {
        let period = rng.range(120, 900);
        let mut wcet = ((share * period + 500) / 1000).max(2);
        if h == 0 {
            wcet = wcet.max(40);
        }
        let mut jitter = (period - x % period) % period + period * rng.weighted(&[5, 3, 1]) as u64;
        if rng.chance(1, 6) {
            jitter = if rng.chance(1, 2) { jitter + 1 } else { jitter.saturating_sub(1) };
        }
        let arr = match rng.below(4) {
            0 | 1 => ArrDesc::Sporadic(period, jitter),
            2 => ArrDesc::Jittered(Box::new(ArrDesc::Periodic(period)), jitter),
            _ => ArrDesc::Propagated(Box::new(ArrDesc::Periodic(period)), jitter),
        };
        let segs = composition(rng, wcet, 4);
        let max_np = rng.range(1, wcet);
        tasks.push(TaskDesc {
            arr,
            wcet,
            prio: prios[n_fast + h],
            deadline: rng.range((period / 2).max(1), 3 * period),
            segs,
            max_np,
        });
    }
    // any order of the tasks
    rng.shuffle(&mut tasks);
    TaskSet { tasks, limit: 20_000 }
}

pub fn random_taskset(rng: &mut Rng, sw: &TaskSetSwarm) -> TaskSet {
    let n = sw.n_tasks;
    // split utilisation
    let mut shares: Vec<u64> = (0..n).map(|_| rng.range(1, 100)).collect();
    let total: u64 = shares.iter().sum();
    for sh in shares.iter_mut() {
        *sh = (*sh * sw.util_pct * 10) / total; // per mille
    }
    let harmonic_base = *rng.pick(&[2u64, 3, 4, 5, 6]);
    let harmonic = rng.chance(1, 4);
    let mut prios: Vec<u32> = (0..n as u32).collect();
    rng.shuffle(&mut prios);
    let mut tasks = Vec::new();
    for i in 0..n {
        let period = if harmonic {
            let mut p = harmonic_base;
            while p * 2 <= sw.max_period && rng.chance(1, 2) {
                p *= 2;
            }
            p
        } else {
            rng.range(2, sw.max_period)
        };
        let mut wcet = (shares[i] * period + 500) / 1000;
        wcet = wcet.clamp(1, sw.max_wcet);
        let arr = random_arrival(rng, period, &sw.arr);
        let prio = if sw.all_equal_prio {
            1
        } else if sw.prio_ties && rng.chance(1, 2) {
            rng.below(n as u64) as u32
        } else {
            prios[i]
        };
        let deadline = match rng.below(14) {
            0 | 1 => period,
            2 | 3 => (period / 5).max(1),
            4 | 5 => rng.range((period / 2).max(1), period),
            6 | 7 => rng.range(period, 3 * period),
            8 | 9 => rng.range(1, period.max(1)),
            10 => 1,
            11 => rng.range(3 * period, 20 * period),
            _ => rng.range((period / 5).max(1), 3 * period),
        };
        let segs = composition(rng, wcet, 4);
        let max_np = rng.range(1, wcet);
        tasks.push(TaskDesc {
            arr,
            wcet,
            prio,
            deadline,
            segs,
            max_np,
        });
    }
    if sw.identical_tasks && tasks.len() > 1 {
        let first = tasks[0].clone();
        for (i, t) in tasks.iter_mut().enumerate().skip(1) {
            let prio = t.prio;
            *t = first.clone();
            if !sw.all_equal_prio {
                t.prio = prio.max(i as u32 % 3);
            }
        }
    }
    TaskSet {
        tasks,
        limit: sw.limit,
    }
}
