//! Event generators that produce exactly the release sequences an arrival
//! bound admits, plus the independent validator.
//!
//! Admissibility is defined through the bound's own `number_arrivals`
//! (tabulated by scanning δ; `steps_iter` is *not* trusted here).

use response_time_analysis::arrival::ArrivalBound;

use crate::desc::d;
use crate::rng::Rng;

pub const INF: u64 = u64::MAX / 4;

/// `dm[k]` = minimum distance between the first and the k-th of k consecutive
/// events, i.e. `L(k) − 1` with `L(k) = min{δ : η(δ) ≥ k}`.  `dm[0] = dm[1] = 0`.
/// `dm.len() − 1` is the largest number of events that fit the scanned range.
#[derive(Clone, Debug, PartialEq, Eq)]
pub struct Adm {
    pub dm: Vec<u64>,
    /// δ range that was scanned.
    pub scanned: u64,
    /// η(δ) for δ = 0..=min(scanned, eta_keep); used by attainment checks.
    pub eta: Vec<usize>,
}

impl Adm {
    pub fn tabulate(ab: &dyn ArrivalBound, scan: u64, kmax: usize) -> Adm {
        let mut dm: Vec<u64> = vec![0];
        let mut eta = Vec::with_capacity(scan as usize + 1);
        eta.push(ab.number_arrivals(d(0)));
        let mut delta = 1u64;
        while delta <= scan && dm.len() <= kmax {
            let n = ab.number_arrivals(d(delta));
            eta.push(n);
            while dm.len() <= n && dm.len() <= kmax {
                dm.push(delta - 1);
            }
            delta += 1;
        }
        Adm {
            dm,
            scanned: delta - 1,
            eta,
        }
    }

    /// Largest number of events the table can place.
    pub fn max_events(&self) -> usize {
        self.dm.len() - 1
    }

    /// Minimum distance between first and k-th event (∞ when the table says k
    /// events never fit the scanned range).
    #[inline]
    pub fn dist(&self, k: usize) -> u64 {
        if k < self.dm.len() {
            self.dm[k]
        } else {
            INF
        }
    }

    /// Earliest legal time for the next event after `prev` (ascending).
    pub fn earliest_next(&self, prev: &[u64]) -> u64 {
        let n = prev.len();
        let mut lb = 0u64;
        for k in 1..=n {
            let dist = self.dist(k + 1);
            if dist >= INF {
                return INF;
            }
            let c = prev[n - k] + dist;
            if c > lb {
                lb = c;
            }
        }
        lb
    }

    /// The dense sequence starting at 0 (as early as legal), up to `max_jobs`
    /// events and not beyond `horizon`.
    pub fn dense(&self, horizon: u64, max_jobs: usize) -> Vec<u64> {
        let mut t: Vec<u64> = Vec::new();
        if self.max_events() == 0 {
            return t;
        }
        while t.len() < max_jobs {
            let lb = self.earliest_next(&t);
            if lb >= INF || lb > horizon {
                break;
            }
            t.push(lb);
        }
        t
    }

    /// Independent O(n²) re-check of every pair.
    pub fn validate(&self, t: &[u64]) -> Result<(), String> {
        for i in 0..t.len() {
            if i > 0 && t[i] < t[i - 1] {
                return Err(format!("release times not sorted at index {}", i));
            }
            for j in i..t.len() {
                let k = j - i + 1;
                let need = self.dist(k);
                if need >= INF {
                    return Err(format!(
                        "{} events in one run although the curve admits at most {}",
                        k,
                        self.max_events()
                    ));
                }
                if t[j] - t[i] < need {
                    return Err(format!(
                        "events {}..{} span {} < minimum distance {} for {} events",
                        i,
                        j,
                        t[j] - t[i],
                        need,
                        k
                    ));
                }
            }
        }
        Ok(())
    }
}

#[derive(Clone, Debug)]
pub enum RelStrategy {
    /// As early as legal from `phase`.
    Dense { phase: u64 },
    /// Each event delayed with probability `p/100` by up to `max`.
    RandomDelay { phase: u64, p: u64, max: u64 },
    /// Dense, but with probability `p/100` a long gap (several busy windows).
    Stretch { phase: u64, p: u64, gap: u64 },
    /// A job sits exactly at `anchor`; its predecessors are packed backwards
    /// from it as densely as legal, successors follow densely.
    Anchored { anchor: u64 },
    /// Exactly one event at `at`.
    Single { at: u64 },
}

#[derive(Default, Clone, Debug)]
pub struct RelStats {
    pub delayed: u64,
    pub stretched: u64,
    pub simultaneous: u64,
}

pub fn generate(
    adm: &Adm,
    strat: &RelStrategy,
    horizon: u64,
    max_jobs: usize,
    rng: &mut Rng,
    stats: &mut RelStats,
) -> Vec<u64> {
    let mut t: Vec<u64> = Vec::new();
    if adm.max_events() == 0 || max_jobs == 0 {
        return t;
    }
    match strat {
        RelStrategy::Single { at } => {
            if *at <= horizon {
                t.push(*at)
            }
        }
        RelStrategy::Dense { phase } => {
            while t.len() < max_jobs {
                let lb = adm.earliest_next(&t).max(*phase);
                if lb >= INF || lb > horizon {
                    break;
                }
                t.push(lb);
            }
        }
        RelStrategy::RandomDelay { phase, p, max } => {
            while t.len() < max_jobs {
                let mut lb = adm.earliest_next(&t).max(*phase);
                if lb >= INF {
                    break;
                }
                if rng.chance(*p, 100) {
                    lb += rng.range(1, (*max).max(1));
                    stats.delayed += 1;
                }
                if lb > horizon {
                    break;
                }
                t.push(lb);
            }
        }
        RelStrategy::Stretch { phase, p, gap } => {
            while t.len() < max_jobs {
                let mut lb = adm.earliest_next(&t).max(*phase);
                if lb >= INF {
                    break;
                }
                if !t.is_empty() && rng.chance(*p, 100) {
                    lb += rng.range(*gap / 2 + 1, (*gap).max(2));
                    stats.stretched += 1;
                }
                if lb > horizon {
                    break;
                }
                t.push(lb);
            }
        }
        RelStrategy::Anchored { anchor } => {
            // mirror of the dense sequence, ending at the anchor
            let back = adm.dense(*anchor, max_jobs);
            for s in back.iter().rev() {
                t.push(*anchor - *s);
            }
            while t.len() < max_jobs {
                let lb = adm.earliest_next(&t);
                if lb >= INF || lb > horizon {
                    break;
                }
                t.push(lb);
            }
        }
    }
    for w in t.windows(2) {
        if w[0] == w[1] {
            stats.simultaneous += 1;
        }
    }
    t
}
