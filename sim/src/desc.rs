//! Plain-data descriptions of the library's models.
//!
//! Everything that crosses a thread boundary or goes into a replay file is a
//! description; the (possibly `!Send`) library objects are built from it
//! inside the worker that uses them.
//!
//! Text syntax (used in replay files and evidence samples):
//!
//! ```text
//! arrival  := P(T) | S(T,J) | C[d,d,..] | X[d,d,..] | A(h;δ:n,δ:n,..)
//!           | J(arrival,j)      -- arrival.clone_with_jitter(j)
//!           | G(arrival,j)      -- Propagated::with_jitter(&arrival, j)   (concrete inner only)
//!           | V[arrival|arrival|..]   -- Vec<Box<dyn ArrivalBound>>
//!           | U(arrival,arrival)      -- sum_of
//!           | R(arrival)              -- Rc<dyn ArrivalBound>
//!           | N
//!           | O(rate,epsilon)         -- ApproximatedPoisson::new(rate/10^4, epsilon/10^4)
//!           | B(T,k,g)                -- user-defined model: k jobs at once every T, g > 0: again g ticks later (default steps_iter)
//! cost     := c(W) | m[w,w,..] | k[w,w,..] | x[w,w,..] | u[w,w,..] (user-defined, trait defaults)
//! supply   := D | Q(budget,period) | K(budget,deadline,period)
//! ```

use std::fmt;
use std::rc::Rc;

use response_time_analysis::arrival::{
    self, ArrivalBound, ArrivalCurvePrefix, ExtrapolatingCurve, Never, Periodic, Propagated,
    Sporadic,
};
use response_time_analysis::supply::{self, SupplyBound};
use response_time_analysis::time::{Duration, Service};
use response_time_analysis::wcet::{self, JobCostModel};

pub fn d(v: u64) -> Duration {
    Duration::from(v)
}
pub fn s(v: u64) -> Service {
    Service::from(v)
}
pub fn du(v: Duration) -> u64 {
    u64::from(v)
}
pub fn su(v: Service) -> u64 {
    u64::from(v)
}

#[derive(Clone, Debug, PartialEq, Eq, PartialOrd, Ord)]
pub enum ArrDesc {
    Periodic(u64),
    Sporadic(u64, u64),
    Curve(Vec<u64>),
    Extrap(Vec<u64>),
    Prefix(u64, Vec<(u64, usize)>),
    Jittered(Box<ArrDesc>, u64),
    Propagated(Box<ArrDesc>, u64),
    Vec(Vec<ArrDesc>),
    /// the same superposition handed over as a boxed slice (`impl ArrivalBound for [T]`)
    Slice(Vec<ArrDesc>),
    SumOf(Box<ArrDesc>, Box<ArrDesc>),
    Rc(Box<ArrDesc>),
    Never,
    /// `ApproximatedPoisson::new(rate / 10^4, epsilon / 10^4)`: a probabilistic bound without a
    /// deterministic event process (its `number_arrivals(1)` may be 0 and its first step may
    /// jump by several jobs); used as a *source* of derived curves only (C12)
    Poisson(u64, u64),
    /// A model the *user* wrote against the public trait: bursts of `k` simultaneous jobs every
    /// `T` time units, implementing only `number_arrivals` (= k * ceil(delta / T)) and
    /// `clone_with_jitter` (via `Propagated`), so that the trait's default, brute-force
    /// `steps_iter` runs.  Third field `g` > 0: a second burst of `k` jobs `g` ticks after each
    /// first one (`g <= T / 2`), so that the curve steps at two nearby (for `g = 1`: consecutive)
    /// lengths: k * ceil(delta / T) + k * ceil((delta - g) / T).
    User(u64, u64, u64),
}

/// See [ArrDesc::User].
#[derive(Clone, Debug)]
pub struct UserBurst {
    pub period: u64,
    pub burst: u64,
    pub gap: u64,
}

impl ArrivalBound for UserBurst {
    fn number_arrivals(&self, delta: Duration) -> usize {
        let x = du(delta);
        if x == 0 {
            0
        } else {
            let first = (x + self.period - 1) / self.period;
            let second = if self.gap > 0 && x > self.gap {
                (x - self.gap + self.period - 1) / self.period
            } else {
                0
            };
            (self.burst * (first + second)) as usize
        }
    }

    fn clone_with_jitter(&self, jitter: Duration) -> Box<dyn ArrivalBound> {
        Box::new(Propagated::with_jitter(self, jitter))
    }
}

impl ArrDesc {
    pub fn build(&self) -> Box<dyn ArrivalBound> {
        match self {
            ArrDesc::Periodic(t) => Box::new(Periodic::new(d(*t))),
            ArrDesc::Sporadic(t, j) => Box::new(Sporadic::new(d(*t), d(*j))),
            ArrDesc::Curve(v) => Box::new(arrival::Curve::new(v.iter().map(|x| d(*x)).collect())),
            ArrDesc::Extrap(v) => Box::new(ExtrapolatingCurve::new(arrival::Curve::new(
                v.iter().map(|x| d(*x)).collect(),
            ))),
            ArrDesc::Prefix(h, steps) => Box::new(ArrivalCurvePrefix::new(
                d(*h),
                steps.iter().map(|(x, n)| (d(*x), *n)).collect(),
            )),
            ArrDesc::Jittered(inner, j) => inner.build().clone_with_jitter(d(*j)),
            ArrDesc::Propagated(inner, j) => match &**inner {
                ArrDesc::Periodic(t) => {
                    Box::new(Propagated::with_jitter(&Periodic::new(d(*t)), d(*j)))
                }
                ArrDesc::Sporadic(t, jj) => {
                    Box::new(Propagated::with_jitter(&Sporadic::new(d(*t), d(*jj)), d(*j)))
                }
                ArrDesc::Curve(v) => Box::new(Propagated::with_jitter(
                    &arrival::Curve::new(v.iter().map(|x| d(*x)).collect()),
                    d(*j),
                )),
                ArrDesc::Extrap(v) => Box::new(Propagated::with_jitter(
                    &ExtrapolatingCurve::new(arrival::Curve::new(
                        v.iter().map(|x| d(*x)).collect(),
                    )),
                    d(*j),
                )),
                ArrDesc::Prefix(h, steps) => Box::new(Propagated::with_jitter(
                    &ArrivalCurvePrefix::new(
                        d(*h),
                        steps.iter().map(|(x, n)| (d(*x), *n)).collect(),
                    ),
                    d(*j),
                )),
                ArrDesc::Never => Box::new(Propagated::with_jitter(&Never {}, d(*j))),
                // no concrete Clone type behind these: fall back to the trait method
                other => other.build().clone_with_jitter(d(*j)),
            },
            ArrDesc::Vec(v) => {
                let parts: Vec<Box<dyn ArrivalBound>> = v.iter().map(|a| a.build()).collect();
                Box::new(parts)
            }
            ArrDesc::Slice(v) => {
                let parts: Vec<Box<dyn ArrivalBound>> = v.iter().map(|a| a.build()).collect();
                let boxed: Box<[Box<dyn ArrivalBound>]> = parts.into_boxed_slice();
                Box::new(boxed)
            }
            ArrDesc::SumOf(a, b) => Box::new(arrival::sum_of(a.build(), b.build())),
            ArrDesc::Rc(a) => {
                let inner: Rc<dyn ArrivalBound> = Rc::from(a.build());
                Box::new(inner)
            }
            ArrDesc::Never => Box::new(Never {}),
            ArrDesc::User(t, k, g) => Box::new(UserBurst {
                period: (*t).max(1),
                burst: (*k).max(1),
                gap: *g,
            }),
            ArrDesc::Poisson(r, e) => Box::new(arrival::ApproximatedPoisson::new(
                *r as f64 / 10_000.0,
                *e as f64 / 10_000.0,
            )),
        }
    }

    pub fn kind_name(&self) -> &'static str {
        match self {
            ArrDesc::Periodic(_) => "Periodic",
            ArrDesc::Sporadic(..) => "Sporadic",
            ArrDesc::Curve(_) => "Curve",
            ArrDesc::Extrap(_) => "ExtrapolatingCurve",
            ArrDesc::Prefix(..) => "ArrivalCurvePrefix",
            ArrDesc::Jittered(..) => "clone_with_jitter",
            ArrDesc::Propagated(..) => "Propagated",
            ArrDesc::Vec(_) => "Vec",
            ArrDesc::Slice(_) => "slice",
            ArrDesc::SumOf(..) => "sum_of",
            ArrDesc::Rc(_) => "Rc",
            ArrDesc::Never => "Never",
            ArrDesc::Poisson(..) => "ApproximatedPoisson",
            ArrDesc::User(..) => "user-defined",
        }
    }
}

fn join<T: fmt::Display>(xs: &[T], sep: &str) -> String {
    xs.iter().map(|x| x.to_string()).collect::<Vec<_>>().join(sep)
}

impl fmt::Display for ArrDesc {
    fn fmt(&self, f: &mut fmt::Formatter<'_>) -> fmt::Result {
        match self {
            ArrDesc::Periodic(t) => write!(f, "P({})", t),
            ArrDesc::Sporadic(t, j) => write!(f, "S({},{})", t, j),
            ArrDesc::Curve(v) => write!(f, "C[{}]", join(v, ",")),
            ArrDesc::Extrap(v) => write!(f, "X[{}]", join(v, ",")),
            ArrDesc::Prefix(h, st) => {
                let parts: Vec<String> = st.iter().map(|(x, n)| format!("{}:{}", x, n)).collect();
                write!(f, "A({};{})", h, parts.join(","))
            }
            ArrDesc::Jittered(a, j) => write!(f, "J({},{})", a, j),
            ArrDesc::Propagated(a, j) => write!(f, "G({},{})", a, j),
            ArrDesc::Vec(v) => write!(f, "V[{}]", join(v, "|")),
            ArrDesc::Slice(v) => write!(f, "L[{}]", join(v, "|")),
            ArrDesc::SumOf(a, b) => write!(f, "U({},{})", a, b),
            ArrDesc::Rc(a) => write!(f, "R({})", a),
            ArrDesc::Never => write!(f, "N"),
            ArrDesc::Poisson(r, e) => write!(f, "O({},{})", r, e),
            ArrDesc::User(t, k, g) => write!(f, "B({},{},{})", t, k, g),
        }
    }
}

#[derive(Clone, Debug, PartialEq, Eq, PartialOrd, Ord)]
pub enum CostDesc {
    Scalar(u64),
    Multiframe(Vec<u64>),
    Curve(Vec<u64>),
    Extrap(Vec<u64>),
    /// a cost model the *user* wrote against the public trait: it implements only
    /// `job_cost_iter` (the given per-job costs, cyclically), so the trait's DEFAULT
    /// `cost_of_jobs` and `least_wcet` run
    User(Vec<u64>),
}

/// See [CostDesc::User].
pub struct UserCost(pub Vec<u64>);

impl JobCostModel for UserCost {
    fn job_cost_iter<'a>(&'a self) -> Box<dyn Iterator<Item = Service> + 'a> {
        Box::new(self.0.iter().cycle().map(|x| s(*x)))
    }
}

impl CostDesc {
    pub fn build(&self) -> Box<dyn JobCostModel> {
        match self {
            CostDesc::Scalar(w) => Box::new(wcet::Scalar::new(s(*w))),
            CostDesc::Multiframe(v) => {
                Box::new(wcet::Multiframe::new(v.iter().map(|x| s(*x)).collect()))
            }
            CostDesc::Curve(v) => Box::new(wcet::Curve::new(v.iter().map(|x| s(*x)).collect())),
            CostDesc::Extrap(v) => Box::new(wcet::ExtrapolatingCurve::new(wcet::Curve::new(
                v.iter().map(|x| s(*x)).collect(),
            ))),
            CostDesc::User(v) => Box::new(UserCost(if v.is_empty() { vec![0] } else { v.clone() })),
        }
    }

}

impl fmt::Display for CostDesc {
    fn fmt(&self, f: &mut fmt::Formatter<'_>) -> fmt::Result {
        match self {
            CostDesc::Scalar(w) => write!(f, "c({})", w),
            CostDesc::Multiframe(v) => write!(f, "m[{}]", join(v, ",")),
            CostDesc::Curve(v) => write!(f, "k[{}]", join(v, ",")),
            CostDesc::Extrap(v) => write!(f, "x[{}]", join(v, ",")),
            CostDesc::User(v) => write!(f, "u[{}]", join(v, ",")),
        }
    }
}

#[derive(Clone, Debug, PartialEq, Eq, PartialOrd, Ord)]
pub enum SupDesc {
    Dedicated,
    /// (budget, period)
    Periodic(u64, u64),
    /// (budget, deadline, period)
    Constrained(u64, u64, u64),
}

impl SupDesc {
    pub fn build(&self) -> Box<dyn SupplyBound> {
        match self {
            SupDesc::Dedicated => Box::new(supply::Dedicated::new()),
            SupDesc::Periodic(q, p) => Box::new(supply::Periodic::new(s(*q), d(*p))),
            SupDesc::Constrained(q, dl, p) => {
                Box::new(supply::Constrained::new(s(*q), d(*dl), d(*p)))
            }
        }
    }
    /// (budget, deadline, period) with the dedicated processor as (1,1,1).
    pub fn qdp(&self) -> (u64, u64, u64) {
        match self {
            SupDesc::Dedicated => (1, 1, 1),
            SupDesc::Periodic(q, p) => (*q, *p, *p),
            SupDesc::Constrained(q, dl, p) => (*q, *dl, *p),
        }
    }
}

impl fmt::Display for SupDesc {
    fn fmt(&self, f: &mut fmt::Formatter<'_>) -> fmt::Result {
        match self {
            SupDesc::Dedicated => write!(f, "D"),
            SupDesc::Periodic(q, p) => write!(f, "Q({},{})", q, p),
            SupDesc::Constrained(q, dl, p) => write!(f, "K({},{},{})", q, dl, p),
        }
    }
}

// ---------------------------------------------------------------------------
// parser

pub struct Parser<'a> {
    s: &'a [u8],
    pos: usize,
}

pub type PResult<T> = Result<T, String>;

impl<'a> Parser<'a> {
    pub fn new(text: &'a str) -> Self {
        Parser {
            s: text.as_bytes(),
            pos: 0,
        }
    }
    fn peek(&self) -> Option<u8> {
        self.s.get(self.pos).copied()
    }
    fn bump(&mut self) -> Option<u8> {
        let c = self.peek();
        self.pos += 1;
        c
    }
    fn expect(&mut self, c: u8) -> PResult<()> {
        match self.bump() {
            Some(x) if x == c => Ok(()),
            other => Err(format!(
                "expected '{}' at {}, found {:?}",
                c as char,
                self.pos - 1,
                other.map(|b| b as char)
            )),
        }
    }
    fn num(&mut self) -> PResult<u64> {
        let start = self.pos;
        while matches!(self.peek(), Some(b'0'..=b'9')) {
            self.pos += 1;
        }
        if start == self.pos {
            return Err(format!("expected number at {}", start));
        }
        std::str::from_utf8(&self.s[start..self.pos])
            .unwrap()
            .parse::<u64>()
            .map_err(|e| e.to_string())
    }
    fn num_list(&mut self, close: u8) -> PResult<Vec<u64>> {
        let mut v = Vec::new();
        if self.peek() == Some(close) {
            self.pos += 1;
            return Ok(v);
        }
        loop {
            v.push(self.num()?);
            match self.bump() {
                Some(b',') => continue,
                Some(c) if c == close => return Ok(v),
                other => return Err(format!("bad list terminator {:?}", other.map(|b| b as char))),
            }
        }
    }
    pub fn at_end(&self) -> bool {
        self.pos >= self.s.len()
    }

    pub fn arrival(&mut self) -> PResult<ArrDesc> {
        match self.bump() {
            Some(b'P') => {
                self.expect(b'(')?;
                let t = self.num()?;
                self.expect(b')')?;
                Ok(ArrDesc::Periodic(t))
            }
            Some(b'S') => {
                self.expect(b'(')?;
                let t = self.num()?;
                self.expect(b',')?;
                let j = self.num()?;
                self.expect(b')')?;
                Ok(ArrDesc::Sporadic(t, j))
            }
            Some(b'O') => {
                self.expect(b'(')?;
                let r = self.num()?;
                self.expect(b',')?;
                let e = self.num()?;
                self.expect(b')')?;
                Ok(ArrDesc::Poisson(r, e))
            }
            Some(b'B') => {
                self.expect(b'(')?;
                let t = self.num()?;
                self.expect(b',')?;
                let k = self.num()?;
                let g = if self.peek() == Some(b',') {
                    self.pos += 1;
                    self.num()?
                } else {
                    0
                };
                self.expect(b')')?;
                Ok(ArrDesc::User(t, k, g))
            }
            Some(b'C') => {
                self.expect(b'[')?;
                Ok(ArrDesc::Curve(self.num_list(b']')?))
            }
            Some(b'X') => {
                self.expect(b'[')?;
                Ok(ArrDesc::Extrap(self.num_list(b']')?))
            }
            Some(b'A') => {
                self.expect(b'(')?;
                let h = self.num()?;
                self.expect(b';')?;
                let mut steps = Vec::new();
                if self.peek() == Some(b')') {
                    self.pos += 1;
                    return Ok(ArrDesc::Prefix(h, steps));
                }
                loop {
                    let x = self.num()?;
                    self.expect(b':')?;
                    let n = self.num()? as usize;
                    steps.push((x, n));
                    match self.bump() {
                        Some(b',') => continue,
                        Some(b')') => break,
                        other => {
                            return Err(format!("bad step list {:?}", other.map(|b| b as char)))
                        }
                    }
                }
                Ok(ArrDesc::Prefix(h, steps))
            }
            Some(c @ (b'J' | b'G')) => {
                self.expect(b'(')?;
                let a = self.arrival()?;
                self.expect(b',')?;
                let j = self.num()?;
                self.expect(b')')?;
                Ok(if c == b'J' {
                    ArrDesc::Jittered(Box::new(a), j)
                } else {
                    ArrDesc::Propagated(Box::new(a), j)
                })
            }
            Some(c @ (b'V' | b'L')) => {
                self.expect(b'[')?;
                let mut v = Vec::new();
                let wrap = |v: Vec<ArrDesc>| if c == b'V' { ArrDesc::Vec(v) } else { ArrDesc::Slice(v) };
                if self.peek() == Some(b']') {
                    self.pos += 1;
                    return Ok(wrap(v));
                }
                loop {
                    v.push(self.arrival()?);
                    match self.bump() {
                        Some(b'|') => continue,
                        Some(b']') => break,
                        other => {
                            return Err(format!("bad vec list {:?}", other.map(|b| b as char)))
                        }
                    }
                }
                Ok(wrap(v))
            }
            Some(b'U') => {
                self.expect(b'(')?;
                let a = self.arrival()?;
                self.expect(b',')?;
                let b = self.arrival()?;
                self.expect(b')')?;
                Ok(ArrDesc::SumOf(Box::new(a), Box::new(b)))
            }
            Some(b'R') => {
                self.expect(b'(')?;
                let a = self.arrival()?;
                self.expect(b')')?;
                Ok(ArrDesc::Rc(Box::new(a)))
            }
            Some(b'N') => Ok(ArrDesc::Never),
            other => Err(format!(
                "bad arrival description at {}: {:?}",
                self.pos - 1,
                other.map(|b| b as char)
            )),
        }
    }

    pub fn cost(&mut self) -> PResult<CostDesc> {
        match self.bump() {
            Some(b'c') => {
                self.expect(b'(')?;
                let w = self.num()?;
                self.expect(b')')?;
                Ok(CostDesc::Scalar(w))
            }
            Some(b'm') => {
                self.expect(b'[')?;
                Ok(CostDesc::Multiframe(self.num_list(b']')?))
            }
            Some(b'k') => {
                self.expect(b'[')?;
                Ok(CostDesc::Curve(self.num_list(b']')?))
            }
            Some(b'x') => {
                self.expect(b'[')?;
                Ok(CostDesc::Extrap(self.num_list(b']')?))
            }
            Some(b'u') => {
                self.expect(b'[')?;
                Ok(CostDesc::User(self.num_list(b']')?))
            }
            other => Err(format!("bad cost description {:?}", other.map(|b| b as char))),
        }
    }

    pub fn supply(&mut self) -> PResult<SupDesc> {
        match self.bump() {
            Some(b'D') => Ok(SupDesc::Dedicated),
            Some(b'Q') => {
                self.expect(b'(')?;
                let q = self.num()?;
                self.expect(b',')?;
                let p = self.num()?;
                self.expect(b')')?;
                Ok(SupDesc::Periodic(q, p))
            }
            Some(b'K') => {
                self.expect(b'(')?;
                let q = self.num()?;
                self.expect(b',')?;
                let dl = self.num()?;
                self.expect(b',')?;
                let p = self.num()?;
                self.expect(b')')?;
                Ok(SupDesc::Constrained(q, dl, p))
            }
            other => Err(format!("bad supply description {:?}", other.map(|b| b as char))),
        }
    }
}

pub fn parse_arrival(text: &str) -> PResult<ArrDesc> {
    let mut p = Parser::new(text.trim());
    let a = p.arrival()?;
    if !p.at_end() {
        return Err(format!("trailing input in arrival description '{}'", text));
    }
    Ok(a)
}
pub fn parse_cost(text: &str) -> PResult<CostDesc> {
    let mut p = Parser::new(text.trim());
    let a = p.cost()?;
    if !p.at_end() {
        return Err(format!("trailing input in cost description '{}'", text));
    }
    Ok(a)
}
pub fn parse_supply(text: &str) -> PResult<SupDesc> {
    let mut p = Parser::new(text.trim());
    let a = p.supply()?;
    if !p.at_end() {
        return Err(format!("trailing input in supply description '{}'", text));
    }
    Ok(a)
}
