//! Counters, distinct-fingerprint measurement and the parallel run driver.

use std::collections::BTreeMap;
use std::sync::atomic::{AtomicBool, AtomicU64, Ordering};
use std::sync::Mutex;

use crate::json::Json;

/// Lower-bound distinct counter: a shared bitmap indexed by the fingerprint.
/// Collisions can only make the count smaller, so it is conservative; the
/// result does not depend on the order of insertion or the worker count.
pub struct Distinct {
    bits: Vec<AtomicU64>,
    mask: u64,
}

impl Distinct {
    pub fn new(log2_bits: u32) -> Distinct {
        let words = 1usize << (log2_bits - 6);
        let mut bits = Vec::with_capacity(words);
        bits.resize_with(words, || AtomicU64::new(0));
        Distinct {
            bits,
            mask: (1u64 << log2_bits) - 1,
        }
    }
    #[inline]
    pub fn insert(&self, fp: u64) {
        let b = fp & self.mask;
        self.bits[(b >> 6) as usize].fetch_or(1u64 << (b & 63), Ordering::Relaxed);
    }
    pub fn count(&self) -> u64 {
        self.bits
            .iter()
            .map(|w| w.load(Ordering::Relaxed).count_ones() as u64)
            .sum()
    }
}

#[derive(Default, Clone, Debug)]
pub struct Counters {
    pub c: BTreeMap<&'static str, u64>,
}

impl Counters {
    #[inline]
    pub fn add(&mut self, key: &'static str, v: u64) {
        if v != 0 {
            *self.c.entry(key).or_insert(0) += v;
        }
    }
    #[inline]
    pub fn inc(&mut self, key: &'static str) {
        *self.c.entry(key).or_insert(0) += 1;
    }
    pub fn get(&self, key: &str) -> u64 {
        self.c.get(key).copied().unwrap_or(0)
    }
    pub fn merge(&mut self, other: &Counters) {
        for (k, v) in &other.c {
            *self.c.entry(k).or_insert(0) += *v;
        }
    }
    pub fn to_json(&self) -> Json {
        Json::Obj(
            self.c
                .iter()
                .map(|(k, v)| (k.to_string(), Json::Int(*v as i128)))
                .collect(),
        )
    }
    pub fn subset_json(&self, prefix: &str) -> Json {
        Json::Obj(
            self.c
                .iter()
                .filter(|(k, _)| k.starts_with(prefix))
                .map(|(k, v)| (k[prefix.len()..].to_string(), Json::Int(*v as i128)))
                .collect(),
        )
    }
}

/// A violation as reported by an engine: enough to classify it, to order it
/// deterministically, and to replay it.
#[derive(Clone, Debug)]
pub struct Report {
    /// index of the run (input index, schedule index) — used for deterministic ordering
    pub order: (u64, u64),
    /// classification used for known-findings matching
    pub key: String,
    /// one-line human-readable summary
    pub summary: String,
    /// full replay file content (explicit, PRNG-free), *not yet minimised*
    pub replay: String,
}

/// Per-worker accumulator.
#[derive(Default)]
pub struct Acc {
    pub counters: Counters,
    pub reports: Vec<Report>,
    /// (order, text) — the lowest-order ones are kept as samples
    pub samples: Vec<((u64, u64), Json)>,
    /// order-independent digest of every run's event log (wrapping sum of mixed fingerprints)
    pub digest: u64,
}

pub const MAX_REPORTS_KEPT: usize = 24;
pub const MAX_SAMPLES: usize = 3;

impl Acc {
    pub fn report(&mut self, r: Report) {
        self.counters.inc("violations");
        self.reports.push(r);
        if self.reports.len() > 4 * MAX_REPORTS_KEPT {
            self.trim();
        }
    }
    fn trim(&mut self) {
        // keep the lowest-order reports, but at least one per key
        self.reports.sort_by(|a, b| a.order.cmp(&b.order));
        let mut seen: BTreeMap<String, usize> = BTreeMap::new();
        let mut kept = Vec::new();
        for r in self.reports.drain(..) {
            let n = seen.entry(r.key.clone()).or_insert(0);
            *n += 1;
            // the first report of every key is always kept; further ones while there is room
            if *n == 1 || (*n <= 3 && kept.len() < MAX_REPORTS_KEPT) {
                kept.push(r);
            }
        }
        self.reports = kept;
    }
    pub fn digest_add(&mut self, fp: u64) {
        self.digest = self.digest.wrapping_add(crate::rng::splitmix(fp));
    }
    pub fn sample(&mut self, order: (u64, u64), j: impl FnOnce() -> Json) {
        if self.samples.len() < MAX_SAMPLES || order < self.samples.last().unwrap().0 {
            self.samples.push((order, j()));
            self.samples.sort_by(|a, b| a.0.cmp(&b.0));
            self.samples.truncate(MAX_SAMPLES);
        }
    }
    pub fn merge(&mut self, other: Acc) {
        self.counters.merge(&other.counters);
        self.digest = self.digest.wrapping_add(other.digest);
        self.reports.extend(other.reports);
        self.trim();
        self.samples.extend(other.samples);
        self.samples.sort_by(|a, b| a.0.cmp(&b.0));
        self.samples.truncate(MAX_SAMPLES);
    }
}

/// Shared state for the watchdog: what each worker is currently doing.
pub struct Watch {
    pub progress: Vec<AtomicU64>,
    pub current: Vec<Mutex<String>>,
    pub done: AtomicBool,
}

/// Run `work(item, acc)` for every item in `0..n_items` on `jobs` threads and hand the merged
/// accumulator to `fin`, whose result is the exit code.  Items are handed out dynamically; all
/// accumulation is commutative, so the merged result does not depend on `jobs`.
///
/// Watchdog: a worker that makes no progress for `stall_secs` seconds means that library code does
/// not terminate on some input.  The other workers are allowed to finish; then `fin` runs on what
/// they accumulated (so that violations found elsewhere are still reported, exit 1) and the process
/// ends with exit code 2 (harness error) otherwise — the non-terminating input is printed.
pub fn run_parallel_then<F>(
    n_items: u64,
    jobs: usize,
    stall_secs: u64,
    work: F,
    fin: &(dyn Fn(Acc) -> i32 + Sync),
) -> i32
where
    F: Fn(u64, &mut Acc, &dyn Fn(&str)) + Sync,
{
    let next = AtomicU64::new(0);
    let jobs = jobs.max(1);
    let watch = Watch {
        progress: (0..jobs).map(|_| AtomicU64::new(0)).collect(),
        current: (0..jobs).map(|_| Mutex::new(String::new())).collect(),
        done: AtomicBool::new(false),
    };
    let accs: Vec<Mutex<Acc>> = (0..jobs).map(|_| Mutex::new(Acc::default())).collect();
    std::thread::scope(|scope| {
        let mut handles = Vec::new();
        for w in 0..jobs {
            let next = &next;
            let work = &work;
            let watch = &watch;
            let accs = &accs;
            handles.push(scope.spawn(move || {
                let note = |s: &str| {
                    let mut g = watch.current[w].lock().unwrap();
                    g.clear();
                    g.push_str(s);
                    watch.progress[w].fetch_add(1, Ordering::Relaxed);
                };
                loop {
                    let item = next.fetch_add(1, Ordering::Relaxed);
                    if item >= n_items {
                        break;
                    }
                    // the item runs on a private accumulator; only the merge takes the lock, so
                    // that everything a worker found before it got stuck stays readable
                    let mut local = Acc::default();
                    work(item, &mut local, &note);
                    accs[w].lock().unwrap().merge(local);
                    watch.progress[w].fetch_add(1, Ordering::Relaxed);
                }
                watch.progress[w].store(u64::MAX, Ordering::Relaxed);
            }));
        }
        let watch_ref = &watch;
        let accs_ref = &accs;
        let dog = scope.spawn(move || {
            let mut last: Vec<(u64, u64)> = vec![(0, 0); jobs];
            let mut ticks = 0u64;
            while !watch_ref.done.load(Ordering::Relaxed) {
                std::thread::sleep(std::time::Duration::from_millis(250));
                ticks += 1;
                if ticks % 4 != 0 {
                    continue;
                }
                let mut stuck: Vec<usize> = Vec::new();
                for w in 0..jobs {
                    let p = watch_ref.progress[w].load(Ordering::Relaxed);
                    if p == u64::MAX {
                        continue;
                    }
                    if p == last[w].0 {
                        last[w].1 += 1;
                        if last[w].1 >= stall_secs {
                            stuck.push(w);
                        }
                    } else {
                        last[w] = (p, 0);
                    }
                }
                if stuck.is_empty() {
                    continue;
                }
                // let the healthy workers finish (bounded wait), then finalise without the stuck ones
                let mut descs = Vec::new();
                for w in &stuck {
                    descs.push(watch_ref.current[*w].lock().unwrap().clone());
                }
                for d in &descs {
                    eprintln!(
                        "HARNESS-ERROR: no progress for {}s; library code does not terminate on: {}",
                        stall_secs, d
                    );
                    println!("HARNESS-ERROR: analysis did not terminate on: {}", d);
                }
                let t_wait = std::time::Instant::now();
                loop {
                    let healthy_running = (0..jobs).any(|w| {
                        let p = watch_ref.progress[w].load(Ordering::Relaxed);
                        p != u64::MAX && p != last[w].0
                    });
                    for w in 0..jobs {
                        last[w].0 = watch_ref.progress[w].load(Ordering::Relaxed);
                    }
                    if !healthy_running || t_wait.elapsed().as_secs() > 10 * stall_secs {
                        break;
                    }
                    std::thread::sleep(std::time::Duration::from_secs(2));
                }
                let mut total = Acc::default();
                for w in 0..jobs {
                    if let Ok(mut g) = accs_ref[w].try_lock() {
                        total.merge(std::mem::take(&mut *g));
                    }
                }
                total.counters.add("probe.library_nontermination_inputs", descs.len() as u64);
                let code = fin(total);
                println!("rtasim: exit {}", if code == 1 { 1 } else { 2 });
                std::process::exit(if code == 1 { 1 } else { 2 });
            }
        });
        for h in handles {
            if h.join().is_err() {
                eprintln!("HARNESS-ERROR: worker thread panicked");
                std::process::exit(2);
            }
        }
        watch.done.store(true, Ordering::Relaxed);
        let _ = dog.join();
    });
    let mut total = Acc::default();
    for m in accs {
        total.merge(m.into_inner().unwrap());
    }
    fin(total)
}
