//! C13: extrapolation of delta-min prefixes — conservative over event streams, only tightens,
//! and (for `ExtrapolatingCurve`) invisible as a cache under arbitrary interleavings of queries
//! issued by several clients through handles that share the cache.

use std::cell::Cell;

use response_time_analysis::arrival::{self, ArrivalBound, ExtrapolatingCurve};
use response_time_analysis::demand::{RequestBound, RBF};
use response_time_analysis::time::Duration;
use response_time_analysis::wcet::Scalar;

use crate::analysis::guarded;
use crate::desc::{d, du, s, su};
use crate::harness::{components_json, finish, Options};
use crate::json::Json;
use crate::rng::{hash_str, Fingerprint, Rng};
use crate::stats::{run_parallel_then, Acc, Distinct, Report};
use crate::streams::{dmin_stream_ok, first_overfull_window, gen_dmin_stream};

/// Independent model of the tightest super-additive extension:
/// `ext[m]` = minimum distance between the first and last of `m` events.
pub fn closure(prefix: &[u64], upto_events: usize) -> Vec<u64> {
    let mut ext: Vec<u64> = vec![0, 0];
    ext.extend_from_slice(prefix);
    while ext.len() <= upto_events {
        let m = ext.len();
        if prefix.len() < 2 {
            // a single recorded distance: the implied periodic process
            ext.push(ext[m - 1] + prefix[0]);
            continue;
        }
        let mut best = 0u64;
        for a in 2..m {
            let b = m + 1 - a;
            best = best.max(ext[a] + ext[b]);
        }
        ext.push(best);
    }
    ext
}

/// η of the closure: number of m ≥ 1 with ext[m] < δ.
pub fn closure_eta(prefix: &[u64], max_delta: u64) -> Vec<usize> {
    let mut events = prefix.len() + 8;
    let mut ext;
    loop {
        ext = closure(prefix, events);
        if *ext.last().unwrap() >= max_delta || events > 6000 {
            break;
        }
        events *= 2;
    }
    let mut eta = vec![0usize; max_delta as usize + 1];
    let mut m = 1usize;
    for delta in 1..=max_delta as usize {
        while m + 1 < ext.len() && ext[m + 1] < delta as u64 {
            m += 1;
        }
        eta[delta] = m;
    }
    eta
}

#[derive(Clone, Debug, PartialEq, Eq)]
pub enum HandleKind {
    Plain,
    Jitter(u64),
    Rbf(u64),
    /// a jittered clone of a jittered clone
    Jitter2(u64, u64),
}

impl HandleKind {
    fn text(&self) -> String {
        match self {
            HandleKind::Plain => "plain".into(),
            HandleKind::Jitter(j) => format!("jitter:{}", j),
            HandleKind::Rbf(w) => format!("rbf:{}", w),
            HandleKind::Jitter2(a, b) => format!("jitter2:{}:{}", a, b),
        }
    }
    fn parse(t: &str) -> Option<HandleKind> {
        let parts: Vec<&str> = t.split(':').collect();
        match parts[0] {
            "plain" => Some(HandleKind::Plain),
            "jitter" => Some(HandleKind::Jitter(parts.get(1)?.parse().ok()?)),
            "rbf" => Some(HandleKind::Rbf(parts.get(1)?.parse().ok()?)),
            "jitter2" => Some(HandleKind::Jitter2(parts.get(1)?.parse().ok()?, parts.get(2)?.parse().ok()?)),
            _ => None,
        }
    }
    fn jitter(&self) -> u64 {
        match self {
            HandleKind::Jitter(j) => *j,
            HandleKind::Jitter2(a, b) => a + b,
            _ => 0,
        }
    }
}

#[derive(Clone, Debug, PartialEq, Eq)]
pub enum Op {
    /// number_arrivals(δ) on handle h
    Na(usize, u64),
    /// service_needed(δ) on an RBF handle
    Sn(usize, u64),
    /// open a steps iterator on handle h
    Open(usize),
    /// advance open iterator number i (in order of opening)
    Next(usize),
    /// drop open iterator number i
    Drop(usize),
    /// create handle h now (a clone made after the cache may already have been extended)
    Make(usize),
}

impl Op {
    fn text(&self) -> String {
        match self {
            Op::Na(h, x) => format!("na {} {}", h, x),
            Op::Sn(h, x) => format!("sn {} {}", h, x),
            Op::Open(h) => format!("open {}", h),
            Op::Next(i) => format!("next {}", i),
            Op::Drop(i) => format!("drop {}", i),
            Op::Make(h) => format!("make {}", h),
        }
    }
    fn parse(t: &str) -> Option<Op> {
        let p: Vec<&str> = t.split_whitespace().collect();
        let n = |i: usize| -> Option<u64> { p.get(i)?.parse().ok() };
        match *p.first()? {
            "na" => Some(Op::Na(n(1)? as usize, n(2)?)),
            "sn" => Some(Op::Sn(n(1)? as usize, n(2)?)),
            "open" => Some(Op::Open(n(1)? as usize)),
            "next" => Some(Op::Next(n(1)? as usize)),
            "drop" => Some(Op::Drop(n(1)? as usize)),
            "make" => Some(Op::Make(n(1)? as usize)),
            _ => None,
        }
    }
}

#[derive(Clone, Debug)]
pub struct History {
    pub prefix: Vec<u64>,
    pub handles: Vec<HandleKind>,
    /// handles that do not exist from the start but are created by a `make` operation
    pub deferred: Vec<bool>,
    pub ops: Vec<Op>,
}

#[derive(Clone, Debug)]
pub enum Fail {
    Panic { op_index: usize },
    Wrong { op_index: usize, got: u64, eager: u64, closure: u64 },
}

enum Handle {
    Plain(ExtrapolatingCurve),
    Boxed(Box<dyn ArrivalBound>),
    Rbf(RBF<ExtrapolatingCurve, Scalar>),
}

impl Handle {
    fn na(&self, delta: u64) -> usize {
        match self {
            Handle::Plain(c) => c.number_arrivals(d(delta)),
            Handle::Boxed(b) => b.number_arrivals(d(delta)),
            Handle::Rbf(r) => r.arrival_bound.number_arrivals(d(delta)),
        }
    }
    fn steps<'a>(&'a self) -> Box<dyn Iterator<Item = Duration> + 'a> {
        match self {
            Handle::Plain(c) => c.steps_iter(),
            Handle::Boxed(b) => b.steps_iter(),
            Handle::Rbf(r) => r.steps_iter(),
        }
    }
}

/// Expected steps of a handle with total jitter `j`, from the closure model.
fn expected_steps(eta: &[usize], j: u64, count: usize) -> Vec<u64> {
    let mut out = Vec::new();
    let val = |delta: u64| -> usize {
        if delta == 0 {
            0
        } else {
            eta[(delta + j) as usize]
        }
    };
    let mut delta = 1u64;
    while out.len() < count && ((delta + j) as usize) < eta.len() {
        if val(delta) > val(delta - 1) {
            out.push(delta);
        }
        delta += 1;
    }
    out
}

/// Execute a query history against the real objects; every answer is compared with a fresh,
/// eagerly extrapolated `Curve` and with the independent closure model.
pub fn run_history(h: &History) -> Result<u64, Fail> {
    let max_delta: u64 = h
        .ops
        .iter()
        .map(|o| match o {
            Op::Na(hi, x) | Op::Sn(hi, x) => x + h.handles[*hi].jitter(),
            _ => 0,
        })
        .max()
        .unwrap_or(0)
        + 2;
    let nexts = h.ops.iter().filter(|o| matches!(o, Op::Next(_))).count();
    // the k-th step of an iterator sits at the k-th *distinct* distance of the closure (several
    // events may share a distance); extend the closure until enough distinct distances exist
    let mut events = h.prefix.len() + nexts + 4;
    let mut ext;
    loop {
        ext = closure(&h.prefix, events);
        let mut distinct = 1usize;
        for w in ext[1..].windows(2) {
            if w[1] != w[0] {
                distinct += 1;
            }
        }
        if distinct >= nexts + 3 || events > 4000 {
            break;
        }
        events *= 2;
    }
    let max_jit = h.handles.iter().map(|k| k.jitter()).max().unwrap_or(0);
    let scan = max_delta.max(*ext.last().unwrap() + max_jit + 4);
    let eta = closure_eta(&h.prefix, scan + max_jit + 2);
    let cur = Cell::new(0usize);
    let prefix = h.prefix.clone();
    let res = guarded(|| -> Result<u64, Fail> {
        let base = ExtrapolatingCurve::new(arrival::Curve::new(prefix.iter().map(|x| d(*x)).collect()));
        let make = |k: &HandleKind| -> Handle {
            match k {
                HandleKind::Plain => Handle::Plain(base.clone()),
                HandleKind::Jitter(j) => Handle::Boxed(base.clone_with_jitter(d(*j))),
                HandleKind::Jitter2(a, b) => {
                    Handle::Boxed(base.clone_with_jitter(d(*a)).clone_with_jitter(d(*b)))
                }
                HandleKind::Rbf(w) => Handle::Rbf(RBF::new(base.clone(), Scalar::new(s(*w)))),
            }
        };
        let handles: Vec<std::cell::OnceCell<Handle>> =
            h.handles.iter().map(|_| std::cell::OnceCell::new()).collect();
        for (i, k) in h.handles.iter().enumerate() {
            if !h.deferred.get(i).copied().unwrap_or(false) {
                let _ = handles[i].set(make(k));
            }
        }
        let eager = |delta: u64| -> usize {
            let mut c = arrival::Curve::new(prefix.iter().map(|x| d(*x)).collect());
            c.extrapolate(d(delta + 1));
            c.number_arrivals(d(delta))
        };
        // open iterators: (iterator, handle index, items consumed)
        let mut iters: Vec<Option<(Box<dyn Iterator<Item = Duration> + '_>, usize, usize)>> = Vec::new();
        let mut compared = 0u64;
        for (idx, op) in h.ops.iter().enumerate() {
            cur.set(idx);
            match op {
                Op::Make(hi) => {
                    if let Some(cell) = handles.get(*hi) {
                        let _ = cell.set(make(&h.handles[*hi]));
                    }
                }
                Op::Na(hi, delta) => {
                    let hd = match handles.get(*hi).and_then(|c| c.get()) {
                        Some(x) => x,
                        None => continue, // handle not created (yet)
                    };
                    let j = h.handles[*hi].jitter();
                    let got = hd.na(*delta) as u64;
                    let q = if *delta == 0 { 0 } else { *delta + j };
                    let e = if q == 0 { 0 } else { eager(q) as u64 };
                    let c = eta[q as usize] as u64;
                    compared += 1;
                    if got != e || got != c {
                        return Err(Fail::Wrong { op_index: idx, got, eager: e, closure: c });
                    }
                }
                Op::Sn(hi, delta) => {
                    let hd = match handles.get(*hi).and_then(|c| c.get()) {
                        Some(x) => x,
                        None => continue,
                    };
                    if let (Handle::Rbf(r), HandleKind::Rbf(w)) = (hd, &h.handles[*hi]) {
                        let got = su(r.service_needed(d(*delta)));
                        let e = if *delta == 0 { 0 } else { eager(*delta) as u64 * *w };
                        let c = eta[*delta as usize] as u64 * *w;
                        compared += 1;
                        if got != e || got != c {
                            return Err(Fail::Wrong { op_index: idx, got, eager: e, closure: c });
                        }
                    }
                }
                Op::Open(hi) => match handles.get(*hi).and_then(|c| c.get()) {
                    Some(hd) => iters.push(Some((hd.steps(), *hi, 0))),
                    None => iters.push(None),
                },
                Op::Next(i) => {
                    if let Some(Some((it, hi, consumed))) = iters.get_mut(*i) {
                        let got = it.next().map(du).unwrap_or(u64::MAX);
                        let j = h.handles[*hi].jitter();
                        let exp = expected_steps(&eta, j, *consumed + 1);
                        let c = exp.get(*consumed).copied().unwrap_or(u64::MAX);
                        // the eager reference for a step: the value at `got` exceeds the one at `got - 1`
                        let e = if got != u64::MAX && got >= 1 {
                            let hi_v = eager(got + j);
                            let lo_v = if got == 1 { 0 } else { eager(got - 1 + j) };
                            if hi_v > lo_v {
                                got
                            } else {
                                0
                            }
                        } else {
                            0
                        };
                        *consumed += 1;
                        compared += 1;
                        if got != c || got != e {
                            return Err(Fail::Wrong { op_index: idx, got, eager: e, closure: c });
                        }
                    }
                }
                Op::Drop(i) => {
                    if let Some(slot) = iters.get_mut(*i) {
                        *slot = None;
                    }
                }
            }
        }
        Ok(compared)
    });
    match res {
        None => Err(Fail::Panic { op_index: cur.get() }),
        Some(r) => r,
    }
}

pub fn random_prefix(rng: &mut Rng) -> Vec<u64> {
    let period = rng.range(2, 30);
    loop {
        let v = crate::gen::random_dmin(rng, period);
        if !v.is_empty() {
            return v;
        }
    }
}

#[derive(Clone, Copy, Debug)]
enum SchedStrategy {
    Random,
    RoundRobin,
    Bursts,
    IteratorHeavy,
}

/// Draw a query history: K clients, each owning handles and iterators, interleaved by a seeded
/// scheduler.
pub fn gen_history(rng: &mut Rng, stats: &mut [u64; 6]) -> History {
    let prefix = random_prefix(rng);
    let last = *prefix.last().unwrap();
    let clients = rng.range(2, 5) as usize;
    let mut handles = Vec::new();
    let mut deferred = Vec::new();
    let mut made = Vec::new();
    let mut owner = Vec::new(); // handle -> client
    for c in 0..clients {
        for hn in 0..rng.range(1, 2) {
            let k = match rng.below(6) {
                0..=2 => HandleKind::Plain,
                3 => HandleKind::Jitter(rng.below(last + 2)),
                4 => HandleKind::Jitter2(rng.below(last / 2 + 2), rng.below(last / 2 + 2)),
                _ => HandleKind::Rbf(rng.range(1, 9)),
            };
            handles.push(k);
            owner.push(c);
            // a client's second handle is often created only later (a clone made after the
            // cache was extended by other clients)
            let later = hn > 0 && rng.chance(2, 3);
            deferred.push(later);
            made.push(!later);
        }
    }
    let strat = *rng.pick(&[
        SchedStrategy::Random,
        SchedStrategy::RoundRobin,
        SchedStrategy::Bursts,
        SchedStrategy::IteratorHeavy,
    ]);
    let steps = rng.range(6, 60) as usize;
    let max_q = (40 * last).clamp(8, 4000);
    let mut ops = Vec::new();
    // open iterators per client: indices into the global iterator list
    let mut open: Vec<Vec<usize>> = vec![Vec::new(); clients];
    let mut n_iters = 0usize;
    let mut current = 0usize;
    let mut burst_left = 0usize;
    for step in 0..steps {
        let c = match strat {
            SchedStrategy::Random | SchedStrategy::IteratorHeavy => rng.index(clients),
            SchedStrategy::RoundRobin => step % clients,
            SchedStrategy::Bursts => {
                if burst_left == 0 {
                    current = rng.index(clients);
                    burst_left = rng.range(2, 8) as usize;
                }
                burst_left -= 1;
                current
            }
        };
        if step > 0 {
            stats[0] += 1; // scheduling decisions
        }
        let pending: Vec<usize> = (0..handles.len()).filter(|h| owner[*h] == c && !made[*h]).collect();
        if !pending.is_empty() && rng.chance(1, 4) {
            let hn = *rng.pick(&pending);
            made[hn] = true;
            ops.push(Op::Make(hn));
            stats[5] += 1;
            continue;
        }
        let mine: Vec<usize> = (0..handles.len()).filter(|h| owner[*h] == c && made[*h]).collect();
        let h = *rng.pick(&mine);
        let want_iter = matches!(strat, SchedStrategy::IteratorHeavy);
        let choice = rng.below(10);
        let q = match rng.below(4) {
            0 => rng.below(last + 3),
            1 => rng.range(1, max_q),
            2 => last * rng.range(1, 6) + rng.below(3),
            _ => rng.range(1, (4 * last).max(2)),
        };
        if (choice < 3 || (want_iter && choice < 6)) && !open[c].is_empty() {
            let it = *rng.pick(&open[c]);
            // now and then an iterator is driven far ahead in one go
            let burst = if rng.chance(1, 12) { rng.range(5, 40) } else { 1 };
            for _ in 0..burst {
                ops.push(Op::Next(it));
                stats[1] += 1;
            }
        } else if choice == 3 || (want_iter && choice == 6) {
            ops.push(Op::Open(h));
            open[c].push(n_iters);
            n_iters += 1;
            stats[2] += 1;
        } else if choice == 4 && !open[c].is_empty() {
            let pos = rng.index(open[c].len());
            let it = open[c].remove(pos);
            ops.push(Op::Drop(it));
            stats[3] += 1;
        } else if matches!(handles[h], HandleKind::Rbf(_)) && rng.chance(1, 2) {
            ops.push(Op::Sn(h, q));
        } else {
            ops.push(Op::Na(h, q));
            if rng.chance(1, 10) {
                // the same query again (possibly through another handle of the same client)
                let h2 = *rng.pick(&mine);
                ops.push(Op::Na(h2, q));
            }
        }
    }
    // in-flight iterators at the end are simply dropped with the run
    stats[4] += open.iter().map(|o| o.len() as u64).sum::<u64>();
    History { prefix, handles, deferred, ops }
}

fn history_text(h: &History) -> String {
    let pf: Vec<String> = h.prefix.iter().map(|x| x.to_string()).collect();
    let hs: Vec<String> = h
        .handles
        .iter()
        .enumerate()
        .map(|(i, k)| format!("{}{}", k.text(), if h.deferred.get(i).copied().unwrap_or(false) { "@" } else { "" }))
        .collect();
    let mut out = format!("prefix {}\nhandles {}\n", pf.join(" "), hs.join(" "));
    for o in &h.ops {
        out.push_str(&format!("op {}\n", o.text()));
    }
    out
}

fn parse_history(text: &str) -> Option<History> {
    let mut prefix = Vec::new();
    let mut handles = Vec::new();
    let mut deferred: Vec<bool> = Vec::new();
    let mut ops = Vec::new();
    for l in text.lines() {
        let l = l.trim();
        if let Some(r) = l.strip_prefix("prefix ") {
            prefix = r.split_whitespace().filter_map(|x| x.parse().ok()).collect();
        } else if let Some(r) = l.strip_prefix("handles ") {
            handles = r.split_whitespace().filter_map(|t| HandleKind::parse(t.trim_end_matches('@'))).collect();
            deferred = r.split_whitespace().map(|t| t.ends_with('@')).collect();
        } else if let Some(r) = l.strip_prefix("op ") {
            ops.push(Op::parse(r)?);
        }
    }
    if prefix.is_empty() || handles.is_empty() {
        return None;
    }
    Some(History { prefix, handles, deferred, ops })
}

fn fail_text(f: &Fail, h: &History) -> String {
    match f {
        Fail::Panic { op_index } => format!(
            "operation #{} ({}) panicked",
            op_index,
            h.ops.get(*op_index).map(|o| o.text()).unwrap_or_default()
        ),
        Fail::Wrong { op_index, got, eager, closure } => format!(
            "operation #{} ({}) returned {} but a fresh eagerly extrapolated curve gives {} and the closure model {}",
            op_index,
            h.ops.get(*op_index).map(|o| o.text()).unwrap_or_default(),
            got,
            eager,
            closure
        ),
    }
}

fn fail_key(f: &Fail) -> &'static str {
    match f {
        Fail::Panic { .. } => "shared-cache query panics",
        Fail::Wrong { .. } => "shared-cache query answers differ from a fresh curve",
    }
}

fn same_class(a: &Fail, b: &Fail) -> bool {
    fail_key(a) == fail_key(b)
}

/// Drop operations while the same class of failure persists (iterator indices are kept stable
/// by replacing a dropped `open` together with its `next`/`drop` users).
pub fn minimise_history(h: &History, f: &Fail) -> (History, Fail) {
    let mut best = h.clone();
    let mut fail = f.clone();
    // everything after the failing operation is irrelevant
    let cut = match &fail {
        Fail::Panic { op_index } | Fail::Wrong { op_index, .. } => *op_index + 1,
    };
    best.ops.truncate(cut);
    let mut i = 0;
    while i + 1 < best.ops.len() {
        let mut cand = best.clone();
        let removed = cand.ops.remove(i);
        if let Op::Open(_) = removed {
            // renumber later iterator references
            let opened_before = cand.ops[..i].iter().filter(|o| matches!(o, Op::Open(_))).count();
            let mut ok = true;
            for o in cand.ops.iter_mut() {
                match o {
                    Op::Next(k) | Op::Drop(k) => {
                        if *k == opened_before {
                            ok = false;
                        } else if *k > opened_before {
                            *k -= 1;
                        }
                    }
                    _ => {}
                }
            }
            if !ok {
                i += 1;
                continue;
            }
        }
        match run_history(&cand) {
            Err(f2) if same_class(&f2, &fail) => {
                best = cand;
                fail = f2;
            }
            _ => i += 1,
        }
    }
    (best, fail)
}

fn replay_text(kind: &str, body: &str, expect: &str, note: &str) -> String {
    format!(
        "rtasim-replay 1\nproperty C13\nengine extrap\nkind {}\n{}expect {}\nnote {}\n",
        kind, body, expect, note
    )
}

// --- part 1: streams -------------------------------------------------------

#[derive(Clone, Debug, PartialEq, Eq)]
pub enum ExtKind {
    Horizon(u64),
    Steps(usize),
    WithBound(u64),
    Lazy,
}

impl ExtKind {
    fn text(&self) -> String {
        match self {
            ExtKind::Horizon(h) => format!("extrapolate {}", h),
            ExtKind::Steps(n) => format!("extrapolate_steps {}", n),
            ExtKind::WithBound(x) => format!("extrapolate_with_bound {}", x),
            ExtKind::Lazy => "ExtrapolatingCurve".into(),
        }
    }
    fn parse(t: &str) -> Option<ExtKind> {
        let p: Vec<&str> = t.split_whitespace().collect();
        match *p.first()? {
            "extrapolate" => Some(ExtKind::Horizon(p.get(1)?.parse().ok()?)),
            "extrapolate_steps" => Some(ExtKind::Steps(p.get(1)?.parse().ok()?)),
            "extrapolate_with_bound" => Some(ExtKind::WithBound(p.get(1)?.parse().ok()?)),
            "ExtrapolatingCurve" => Some(ExtKind::Lazy),
            _ => None,
        }
    }
}

pub fn build_extrapolated(prefix: &[u64], kind: &ExtKind) -> Box<dyn ArrivalBound> {
    let mut c = arrival::Curve::new(prefix.iter().map(|x| d(*x)).collect());
    match kind {
        ExtKind::Horizon(h) => {
            c.extrapolate(d(*h));
            Box::new(c)
        }
        ExtKind::Steps(n) => {
            c.extrapolate_steps(*n);
            Box::new(c)
        }
        ExtKind::WithBound(dist) => {
            // (delta, njobs): njobs = next element, delta = interval length = distance + 1
            c.extrapolate_with_bound((d(*dist + 1), prefix.len() + 2));
            Box::new(c)
        }
        ExtKind::Lazy => Box::new(ExtrapolatingCurve::new(c)),
    }
}

#[derive(Debug)]
pub enum StreamFail {
    Panic,
    Overfull { from: u64, to: u64, events: usize, allowed: usize },
    PrefixChanged { n: usize, before: u64, after: u64 },
    /// `within` = δ lies inside the range the extended vector covers (its largest distance)
    Loosened { delta: u64, raw: usize, extrapolated: usize, within: bool },
}

/// The constraint vector the event source must respect: the original prefix, plus (for
/// `extrapolate_with_bound`) the additional promised distance for the next element.
pub fn process_constraints(prefix: &[u64], kind: &ExtKind) -> Vec<u64> {
    let mut v = prefix.to_vec();
    if let ExtKind::WithBound(dist) = kind {
        v.push(*dist);
    }
    v
}

pub fn check_stream_case(prefix: &[u64], kind: &ExtKind, ev: &[u64], scan: u64) -> Result<(), StreamFail> {
    let p = prefix.to_vec();
    let k = kind.clone();
    let evc = ev.to_vec();
    let res = guarded(move || -> Result<(), StreamFail> {
        let ext = build_extrapolated(&p, &k);
        let raw = arrival::Curve::new(p.iter().map(|x| d(*x)).collect());
        if let Some((i, j, allowed)) = first_overfull_window(&*ext, &evc) {
            return Err(StreamFail::Overfull { from: evc[i], to: evc[j], events: j - i + 1, allowed });
        }
        // values inside the original prefix unchanged (eager variants expose min_distance)
        let mut covered = u64::MAX; // the lazy variant extrapolates as far as every query needs
        if !matches!(k, ExtKind::Lazy) {
            let mut c = arrival::Curve::new(p.iter().map(|x| d(*x)).collect());
            match &k {
                ExtKind::Horizon(h) => c.extrapolate(d(*h)),
                ExtKind::Steps(n) => c.extrapolate_steps(*n),
                ExtKind::WithBound(dist) => c.extrapolate_with_bound((d(*dist + 1), p.len() + 2)),
                ExtKind::Lazy => {}
            }
            covered = crate::derived::largest_distance(&c).unwrap_or(0);
            for n in 0..=(p.len() + 1) {
                let before = du(raw.min_distance(n));
                let after = du(c.min_distance(n));
                if before != after {
                    return Err(StreamFail::PrefixChanged { n, before, after });
                }
            }
        }
        // only tightens
        for delta in 0..=scan {
            let a = raw.number_arrivals(d(delta));
            let b = ext.number_arrivals(d(delta));
            if b > a {
                return Err(StreamFail::Loosened { delta, raw: a, extrapolated: b, within: delta <= covered });
            }
        }
        Ok(())
    });
    match res {
        None => Err(StreamFail::Panic),
        Some(r) => r,
    }
}

pub struct ExtShared<'a> {
    pub root: u64,
    pub fps: &'a Distinct,
    pub nontrivial: &'a Distinct,
}

fn stream_item(sh: &ExtShared, k: u64, rng: &mut Rng, acc: &mut Acc) {
    let prefix = random_prefix(rng);
    let last = *prefix.last().unwrap();
    let kind = match rng.below(8) {
        0..=1 => ExtKind::Horizon(rng.range(1, 30 * last + 10)),
        2..=3 => ExtKind::Steps(rng.range(0, 60) as usize),
        4 => {
            // a valid bound for the next element: at or above / below the closure value
            let cl = closure(&prefix, prefix.len() + 2);
            let next = cl[prefix.len() + 2];
            // with a single recorded distance the library cannot extrapolate and takes the
            // caller's bound as it is; a bound below what the prefix already implies would make
            // the vector non-super-additive (caller error), so it is not generated there
            let dist = match rng.below(if prefix.len() < 2 { 2 } else { 3 }) {
                0 => next,
                1 => next + rng.range(1, last + 1),
                _ => next.saturating_sub(rng.below(last + 1)).max(last),
            };
            ExtKind::WithBound(dist)
        }
        _ => ExtKind::Lazy,
    };
    match &kind {
        ExtKind::Horizon(_) => acc.counters.inc("case.extrapolate"),
        ExtKind::Steps(_) => acc.counters.inc("case.extrapolate_steps"),
        ExtKind::WithBound(_) => acc.counters.inc("case.extrapolate_with_bound"),
        ExtKind::Lazy => acc.counters.inc("case.extrapolating_curve"),
    }
    let cons = process_constraints(&prefix, &kind);
    let horizon = (last * rng.range(2, 40)).clamp(20, 3000);
    let (p, m) = if rng.chance(1, 2) {
        (0, 0)
    } else {
        (*rng.pick(&[5u64, 15, 40]), rng.range(1, last.max(2)))
    };
    let ev = gen_dmin_stream(&cons, horizon, 240, p, m, rng);
    if let Err(e) = dmin_stream_ok(&cons, &ev) {
        eprintln!("HARNESS-ERROR: event source violated its delta-min constraints: {}", e);
        std::process::exit(2);
    }
    acc.counters.inc("runs");
    acc.counters.add("events", ev.len() as u64);
    acc.counters.add("sim_ticks", ev.last().copied().unwrap_or(0));
    if p == 0 {
        acc.counters.inc("fault.dense_stream");
    } else {
        acc.counters.inc("fault.sporadic_delays");
    }
    acc.counters.add("fault.simultaneous_events", ev.windows(2).filter(|w| w[0] == w[1]).count() as u64);
    let mut fp = Fingerprint::new();
    fp.add(hash_str(&format!("{:?}/{}", prefix, kind.text())));
    for e in &ev {
        fp.add(*e);
    }
    let fpv = fp.finish();
    sh.fps.insert(fpv);
    acc.digest_add(fpv);
    if ev.last().copied().unwrap_or(0) > last {
        sh.nontrivial.insert(fpv);
        acc.counters.inc("runs_nontrivial");
    }
    let pf: Vec<String> = prefix.iter().map(|x| x.to_string()).collect();
    let evs: Vec<String> = ev.iter().map(|x| x.to_string()).collect();
    let scan = horizon + 10;
    let body = format!("prefix {}\nextend {}\nevents {}\nscan {}\n", pf.join(" "), kind.text(), evs.join(" "), scan);
    let note = format!("seed={} case={}", sh.root, k);
    match check_stream_case(&prefix, &kind, &ev, scan) {
        Ok(()) => {}
        Err(StreamFail::Panic) => acc.report(Report {
            order: (k, 0),
            key: format!("{} panics", kind.text().split(' ').next().unwrap_or("")),
            summary: format!("{} of {:?} panicked", kind.text(), prefix),
            replay: replay_text("stream", &body, "library call panics", &note),
        }),
        Err(StreamFail::Overfull { from, to, events, allowed }) => acc.report(Report {
            order: (k, 0),
            key: format!("{} undercounts", kind.text().split(' ').next().unwrap_or("")),
            summary: format!(
                "{} of {:?}: a stream respecting the original prefix has {} events in [{}, {}], the extrapolated curve allows {}",
                kind.text(), prefix, events, from, to, allowed
            ),
            replay: replay_text("stream", &body, &format!("from={} to={} events={} allowed={}", from, to, events, allowed), &note),
        }),
        Err(StreamFail::PrefixChanged { n, before, after }) => acc.report(Report {
            order: (k, 0),
            key: "extrapolation changes the original prefix".into(),
            summary: format!("{} of {:?}: min_distance({}) was {} and is {} afterwards", kind.text(), prefix, n, before, after),
            replay: replay_text("stream", &body, &format!("n={} before={} after={}", n, before, after), &note),
        }),
        Err(StreamFail::Loosened { delta, raw, extrapolated, within }) => acc.report(Report {
            order: (k, 0),
            key: if within {
                "extrapolation loosens the bound inside the extrapolated range".into()
            } else {
                "extrapolation loosens the bound beyond the extrapolated range".into()
            },
            summary: format!(
                "{} of {:?}: at delta={} the un-extrapolated curve says {} and the extrapolated one {}",
                kind.text(), prefix, delta, raw, extrapolated
            ),
            replay: replay_text("stream", &body, &format!("delta={} raw={} extrapolated={}", delta, raw, extrapolated), &note),
        }),
    }
    acc.sample((k, 0), || {
        let mut j = Json::obj();
        j.set("case", Json::str(kind.text()));
        j.set("prefix", Json::str(format!("{:?}", prefix)));
        j.set("events", Json::str(evs.join(",")));
        j
    });
}

fn client_item(sh: &ExtShared, k: u64, rng: &mut Rng, acc: &mut Acc) {
    let mut stats = [0u64; 6];
    let h = gen_history(rng, &mut stats);
    acc.counters.inc("runs");
    acc.counters.inc("case.query_clients");
    acc.counters.add("client_ops", h.ops.len() as u64);
    acc.counters.add("fault.scheduling_decisions", stats[0]);
    acc.counters.add("fault.iterator_advanced_between_queries", stats[1]);
    acc.counters.add("fault.iterator_opened", stats[2]);
    acc.counters.add("fault.iterator_dropped_midway", stats[3]);
    acc.counters.add("fault.iterator_in_flight_at_end", stats[4]);
    acc.counters.add("fault.handle_cloned_after_cache_extended", stats[5]);
    let text = history_text(&h);
    let fpv = hash_str(&text);
    sh.fps.insert(fpv);
    acc.digest_add(fpv);
    let distinct_handles = h
        .ops
        .iter()
        .filter_map(|o| match o {
            Op::Na(hh, _) | Op::Sn(hh, _) | Op::Open(hh) => Some(*hh),
            _ => None,
        })
        .collect::<std::collections::BTreeSet<_>>()
        .len();
    if distinct_handles >= 2 {
        sh.nontrivial.insert(fpv);
        acc.counters.inc("runs_nontrivial");
    }
    match run_history(&h) {
        Ok(n) => acc.counters.add("probe.answers_compared", n),
        Err(f) => acc.report(Report {
            order: (k, 0),
            key: fail_key(&f).into(),
            summary: format!("prefix {:?}: {}", h.prefix, fail_text(&f, &h)),
            replay: replay_text("clients", &text, &fail_text(&f, &h), &format!("seed={} case={}", sh.root, k)),
        }),
    }
    acc.sample((k, 1), || {
        let mut j = Json::obj();
        j.set("case", Json::str("query clients on one shared ExtrapolatingCurve"));
        j.set("prefix", Json::str(format!("{:?}", h.prefix)));
        j.set("handles", Json::Arr(h.handles.iter().map(|x| Json::str(x.text())).collect()));
        j.set("ops", Json::Arr(h.ops.iter().map(|x| Json::str(x.text())).collect()));
        j
    });
}

pub fn c13_item(sh: &ExtShared, k: u64, acc: &mut Acc, note: &dyn Fn(&str)) {
    let mut rng = Rng::new(Rng::run_seed(sh.root, "C13", k));
    note(&format!("C13 case#{}", k));
    if k % 2 == 0 {
        stream_item(sh, k, &mut rng, acc)
    } else {
        client_item(sh, k, &mut rng, acc)
    }
}

pub fn run_c13(opt: &Options) -> i32 {
    let t0 = std::time::Instant::now();
    let cases = if opt.thorough() {
        opt.scaled(24_000_000)
    } else {
        opt.scaled(600_000)
    };
    let fps = Distinct::new(30);
    let nontrivial = Distinct::new(30);
    let sh = ExtShared {
        root: opt.seed,
        fps: &fps,
        nontrivial: &nontrivial,
    };
    let fin = |mut acc: Acc| -> i32 {
        let wall = t0.elapsed().as_secs_f64();
        let mut cov = Json::obj();
        cov.set("evaluations", Json::Int(acc.counters.get("runs") as i128));
        cov.set("distinct_nontrivial", Json::Int(nontrivial.count() as i128));
        cov.set(
            "rule",
            Json::str(
                "one evaluation = either one event stream respecting an original delta-min prefix \
                 (dense or with injected delays) checked in every window against the extrapolated \
                 Curve (extrapolate / extrapolate_steps / extrapolate_with_bound) or ExtrapolatingCurve, \
                 plus prefix-unchanged and only-tightens checks along the scan; or one query history: \
                 2-5 cooperative clients holding handles (clones, jittered clones, nested jittered \
                 clones, RBFs) on one shared ExtrapolatingCurve issue number_arrivals / service_needed \
                 / open-advance-drop steps_iter operations under a seeded scheduler, every answer \
                 compared with a fresh eagerly extrapolated Curve and an independent closure model. \
                 distinct = distinct fingerprints of (prefix, extension, events) resp. of the operation \
                 history; non-trivial = the stream extends beyond the original prefix resp. the history \
                 touches at least two handles",
            ),
        );
        cov.set("distinct_cases", Json::Int(fps.count() as i128));
        cov.set("simulated_time_ticks", Json::Int(acc.counters.get("sim_ticks") as i128));
        cov.set(
            "components",
            components_json(
                &["arrival::Curve::{extrapolate, extrapolate_steps, extrapolate_with_bound, min_distance, number_arrivals}, arrival::ExtrapolatingCurve::{number_arrivals, steps_iter, clone, clone_with_jitter}, Propagated over it, demand::RBF over it (real)"],
                &["event source constrained by the original prefix; cooperative query-client scheduler; closure reference model (stubs, sim/src/extrap.rs)"],
            ),
        );
        let out = finish(
            opt,
            &mut acc,
            wall,
            cov,
            &[
                "prefixes are taken from random traces (super-additive on the recorded range by construction), never all-zero",
                "the library is single-threaded by type (Rc<RefCell>); 'interleaving' means the order in which cooperative clients issue operations, including lazy iterators that stay open across other clients' mutations",
            ],
            &|r: &Report| {
                let kind = get_line(&r.replay, "kind ").unwrap_or_default();
                if kind == "clients" {
                    if let Some(h) = parse_history(&r.replay) {
                        if let Err(f) = run_history(&h) {
                            let (m, f2) = minimise_history(&h, &f);
                            let note = get_line(&r.replay, "note ").unwrap_or_default();
                            return (
                                replay_text("clients", &history_text(&m), &fail_text(&f2, &m), &format!("{} (minimised from {} operations)", note, h.ops.len())),
                                format!("prefix {:?}: {}", m.prefix, fail_text(&f2, &m)),
                            );
                        }
                    }
                }
                if kind == "stream" {
                    if let Some(x) = minimise_stream_case(&r.replay) {
                        return x;
                    }
                }
                (r.replay.clone(), r.summary.clone())
            },
        );
        out.exit_code
    };
    run_parallel_then(cases, opt.jobs, 60, |k, acc, note| c13_item(&sh, k, acc, note), &fin)
}

/// Trim events from both ends of a failing stream case while the same kind of failure persists
/// (a contiguous sub-sequence of a legal stream is legal).
fn minimise_stream_case(replay: &str) -> Option<(String, String)> {
    let nums = |head: &str| -> Vec<u64> {
        get_line(replay, head)
            .map(|l| l.split_whitespace().filter_map(|x| x.parse().ok()).collect())
            .unwrap_or_default()
    };
    let prefix = nums("prefix ");
    let ev = nums("events ");
    let scan = nums("scan ").first().copied().unwrap_or(200);
    let kind = ExtKind::parse(&get_line(replay, "extend ")?)?;
    let class = |f: &StreamFail| -> u8 {
        match f {
            StreamFail::Panic => 0,
            StreamFail::Overfull { .. } => 1,
            StreamFail::PrefixChanged { .. } => 2,
            StreamFail::Loosened { within: true, .. } => 3,
            StreamFail::Loosened { within: false, .. } => 4,
        }
    };
    let first = check_stream_case(&prefix, &kind, &ev, scan).err()?;
    let want = class(&first);
    let fails = |e: &[u64]| -> bool {
        check_stream_case(&prefix, &kind, e, scan).err().map(|f| class(&f) == want).unwrap_or(false)
    };
    let mut best = ev.clone();
    let mut step = (best.len() / 2).max(1);
    loop {
        let mut progress = false;
        if best.len() > step && fails(&best[..best.len() - step]) {
            best.truncate(best.len() - step);
            progress = true;
        }
        if best.len() > step && fails(&best[step..]) {
            best.drain(..step);
            progress = true;
        }
        if !progress {
            if step == 1 {
                break;
            }
            step /= 2;
        }
    }
    // shift to time zero if that keeps the failure
    if let Some(f0) = best.first().copied() {
        let shifted: Vec<u64> = best.iter().map(|x| x - f0).collect();
        if fails(&shifted) {
            best = shifted;
        }
    }
    let f = check_stream_case(&prefix, &kind, &best, scan).err()?;
    let pf: Vec<String> = prefix.iter().map(|x| x.to_string()).collect();
    let evs: Vec<String> = best.iter().map(|x| x.to_string()).collect();
    let body = format!("prefix {}\nextend {}\nevents {}\nscan {}\n", pf.join(" "), kind.text(), evs.join(" "), scan);
    let note = get_line(replay, "note ").unwrap_or_default();
    Some((
        replay_text("stream", &body, &format!("{:?}", f), &format!("{} (minimised from {} events)", note, ev.len())),
        format!("{} of {:?}: {:?}", kind.text(), prefix, f),
    ))
}

fn get_line(text: &str, head: &str) -> Option<String> {
    text.lines()
        .find_map(|l| l.trim().strip_prefix(head).map(|r| r.trim().to_string()))
}

pub fn replay_extrap(path: &str, text: &str) -> i32 {
    let kind = get_line(text, "kind ").unwrap_or_default();
    let viol = |msg: String| -> i32 {
        println!("violation: {}", msg);
        println!("VIOLATION property=C13 replay={}", path);
        1
    };
    match kind.as_str() {
        "clients" => match parse_history(text) {
            None => {
                eprintln!("HARNESS-ERROR: cannot parse the operation history");
                2
            }
            Some(h) => match run_history(&h) {
                Ok(_) => {
                    println!("replay: no violation");
                    0
                }
                Err(f) => viol(format!("prefix {:?}: {}", h.prefix, fail_text(&f, &h))),
            },
        },
        "stream" => {
            let nums = |head: &str| -> Vec<u64> {
                get_line(text, head)
                    .map(|l| l.split_whitespace().filter_map(|x| x.parse().ok()).collect())
                    .unwrap_or_default()
            };
            let prefix = nums("prefix ");
            let ev = nums("events ");
            let scan = nums("scan ").first().copied().unwrap_or(200);
            let ek = match get_line(text, "extend ").and_then(|x| ExtKind::parse(&x)) {
                Some(k) => k,
                None => {
                    eprintln!("HARNESS-ERROR: no extension kind");
                    return 2;
                }
            };
            if prefix.is_empty() {
                eprintln!("HARNESS-ERROR: no prefix");
                return 2;
            }
            if let Err(e) = dmin_stream_ok(&process_constraints(&prefix, &ek), &ev) {
                eprintln!("HARNESS-ERROR: events in the replay file violate the prefix: {}", e);
                return 2;
            }
            match check_stream_case(&prefix, &ek, &ev, scan) {
                Ok(()) => {
                    println!("replay: no violation");
                    0
                }
                Err(StreamFail::Loosened { delta, raw, extrapolated, within: false }) => {
                    let key = "extrapolation loosens the bound beyond the extrapolated range";
                    match crate::harness::known_match("C13", key) {
                        Some(what) => {
                            println!("replay: reproduced (delta={} raw={} extrapolated={})", delta, raw, extrapolated);
                            println!("KNOWN-FINDING: property=C13 {} [key: {}]", what, key);
                            0
                        }
                        None => viol(format!(
                            "{} of {:?}: at delta={} (beyond the extrapolated range) the un-extrapolated curve says {} and the extrapolated one {}",
                            ek.text(), prefix, delta, raw, extrapolated
                        )),
                    }
                }
                Err(f) => viol(format!("{} of {:?}: {:?}", ek.text(), prefix, f)),
            }
        }
        other => {
            eprintln!("HARNESS-ERROR: unknown extrap replay kind '{}'", other);
            2
        }
    }
}
