//! Discrete-time uniprocessor kernel (stub, ours): FP / EDF / FIFO with fully
//! preemptive, fully non-preemptive, limited-preemptive (fixed preemption
//! points) and floating non-preemptive jobs.
//!
//! Tick `t` is the slot `[t, t+1)`.  A release at `t` is visible to the
//! decision taken for slot `t`.  A job executing its last unit in slot `t`
//! completes at `t+1`.  Decisions are taken only at chunk boundaries of the
//! running job (a chunk is a non-preemptive run of execution); the scheduler
//! picks, among the heads of the per-task FIFO queues, a job that is maximal
//! under the policy, with ties resolved by the tie rule (adversary).

use std::collections::VecDeque;
use std::fmt;

use crate::desc::ArrDesc;
use crate::rng::{splitmix, Fingerprint};

#[derive(Clone, Copy, Debug, PartialEq, Eq, PartialOrd, Ord, Hash)]
pub enum Policy {
    Fp,
    Edf,
    Fifo,
}

#[derive(Clone, Copy, Debug, PartialEq, Eq, PartialOrd, Ord, Hash)]
pub enum Preempt {
    Full,
    Non,
    Limited,
    Floating,
}

#[derive(Clone, Copy, Debug, PartialEq, Eq, PartialOrd, Ord, Hash)]
pub enum Variant {
    FpP,
    FpNp,
    FpLp,
    FpFl,
    EdfP,
    EdfNp,
    EdfLp,
    EdfFl,
    Fifo,
}

pub const FP_VARIANTS: [Variant; 4] = [Variant::FpP, Variant::FpNp, Variant::FpLp, Variant::FpFl];
pub const EDF_VARIANTS: [Variant; 4] =
    [Variant::EdfP, Variant::EdfNp, Variant::EdfLp, Variant::EdfFl];

impl Variant {
    pub fn policy(self) -> Policy {
        match self {
            Variant::FpP | Variant::FpNp | Variant::FpLp | Variant::FpFl => Policy::Fp,
            Variant::EdfP | Variant::EdfNp | Variant::EdfLp | Variant::EdfFl => Policy::Edf,
            Variant::Fifo => Policy::Fifo,
        }
    }
    pub fn preempt(self) -> Preempt {
        match self {
            Variant::FpP | Variant::EdfP => Preempt::Full,
            Variant::FpNp | Variant::EdfNp => Preempt::Non,
            Variant::FpLp | Variant::EdfLp => Preempt::Limited,
            Variant::FpFl | Variant::EdfFl => Preempt::Floating,
            // under FIFO a later job never has higher priority, so preemption is immaterial;
            // the kernel runs FIFO jobs non-preemptively
            Variant::Fifo => Preempt::Non,
        }
    }
    pub fn name(self) -> &'static str {
        match self {
            Variant::FpP => "fp/fully_preemptive",
            Variant::FpNp => "fp/fully_nonpreemptive",
            Variant::FpLp => "fp/limited_preemptive",
            Variant::FpFl => "fp/floating_nonpreemptive",
            Variant::EdfP => "edf/fully_preemptive",
            Variant::EdfNp => "edf/fully_nonpreemptive",
            Variant::EdfLp => "edf/limited_preemptive",
            Variant::EdfFl => "edf/floating_nonpreemptive",
            Variant::Fifo => "fifo",
        }
    }
    pub fn from_name(s: &str) -> Option<Variant> {
        [
            Variant::FpP,
            Variant::FpNp,
            Variant::FpLp,
            Variant::FpFl,
            Variant::EdfP,
            Variant::EdfNp,
            Variant::EdfLp,
            Variant::EdfFl,
            Variant::Fifo,
        ]
        .into_iter()
        .find(|v| v.name() == s)
    }
}

impl fmt::Display for Variant {
    fn fmt(&self, f: &mut fmt::Formatter<'_>) -> fmt::Result {
        write!(f, "{}", self.name())
    }
}

#[derive(Clone, Debug, PartialEq, Eq, PartialOrd, Ord)]
pub struct TaskDesc {
    pub arr: ArrDesc,
    pub wcet: u64,
    /// FP: numerically larger = higher priority.
    pub prio: u32,
    /// EDF: relative deadline.
    pub deadline: u64,
    /// Limited-preemptive segment layout; sums to `wcet`.
    pub segs: Vec<u64>,
    /// Floating model: longest non-preemptive region (1..=wcet).
    pub max_np: u64,
}

impl TaskDesc {
    pub fn max_seg(&self) -> u64 {
        self.segs.iter().copied().max().unwrap_or(self.wcet)
    }
    pub fn last_seg(&self) -> u64 {
        self.segs.last().copied().unwrap_or(self.wcet)
    }
    /// Longest non-preemptive run of a job of this task under `pre`.
    pub fn max_np_under(&self, pre: Preempt) -> u64 {
        match pre {
            Preempt::Full => 1,
            Preempt::Non => self.wcet,
            Preempt::Limited => self.max_seg(),
            Preempt::Floating => self.max_np,
        }
    }
}

impl fmt::Display for TaskDesc {
    fn fmt(&self, f: &mut fmt::Formatter<'_>) -> fmt::Result {
        let segs: Vec<String> = self.segs.iter().map(|x| x.to_string()).collect();
        write!(
            f,
            "arr={} wcet={} prio={} deadline={} segs={} maxnp={}",
            self.arr,
            self.wcet,
            self.prio,
            self.deadline,
            segs.join("+"),
            self.max_np
        )
    }
}

#[derive(Clone, Debug, PartialEq, Eq, PartialOrd, Ord)]
pub struct TaskSet {
    pub tasks: Vec<TaskDesc>,
    pub limit: u64,
}

impl TaskSet {
    /// Cap on the number of jobs per task in one schedule.  Task sets with heavy tasks (long busy
    /// windows by construction, see `gen::coincidence_taskset`) get a larger cap so that their
    /// fast tasks keep releasing throughout the window.  A function of the task set only, so a
    /// replay file reproduces it.
    pub fn kmax(&self) -> usize {
        if self.tasks.iter().any(|t| t.wcet >= 40) {
            1700
        } else {
            260
        }
    }
}

/// One job of the explicit schedule description.
#[derive(Clone, Debug, PartialEq, Eq)]
pub struct JobSpec {
    pub task: usize,
    pub release: u64,
    /// Non-preemptive chunks; the job's actual cost is their sum.  Under the
    /// fully preemptive model this is a single entry (the cost) and the kernel
    /// treats every unit as its own chunk.
    pub chunks: Vec<u32>,
}

impl JobSpec {
    pub fn cost(&self) -> u64 {
        self.chunks.iter().map(|c| *c as u64).sum()
    }
}

/// How ties among equally ranked candidates are resolved.
#[derive(Clone, Debug, PartialEq, Eq)]
pub enum TieRule {
    /// Lowest task index wins.
    First,
    /// Highest task index wins.
    Last,
    /// The given task loses every tie it is part of; otherwise hashed choice.
    VictimLoses { victim: usize, salt: u64 },
    /// Choice is a hash of (salt, time): "random" but a pure function of the run description.
    Hashed { salt: u64 },
    /// Explicit choices in decision order (index into the sorted candidate
    /// list); exhausted ⇒ first candidate.
    Script(Vec<u16>),
}

#[derive(Clone, Debug)]
pub struct Violation {
    pub task: usize,
    pub job_k: usize,
    pub release: u64,
    pub bound: u64,
    /// response time observed, or time pending so far if the job was cut off
    pub observed: u64,
    pub completed: bool,
}

#[derive(Clone, Debug, Default)]
pub struct Probes {
    pub ties: u64,
    pub ties_against_victim: u64,
    pub np_blocking: u64,
    pub preemptions: u64,
    pub decisions: u64,
    pub busy_windows: u64,
    pub deadline_ties: u64,
    pub idle_ticks: u64,
}

#[derive(Clone, Debug)]
pub struct SimResult {
    /// max response time per task among completed jobs (0 if none)
    pub max_resp: Vec<u64>,
    /// (job index within task, release, offset of the release inside its busy window) of the max
    pub worst: Vec<Option<(usize, u64, u64)>>,
    pub completed: Vec<u64>,
    /// any completed job of the task was delayed by another task
    pub delayed_by_other: Vec<bool>,
    pub violation: Option<Violation>,
    pub fingerprint: u64,
    pub end_time: u64,
    pub busy_ticks: u64,
    pub drained: bool,
    pub probes: Probes,
    pub tie_log: Vec<u16>,
}

pub struct SimConfig<'a> {
    pub policy: Policy,
    pub preempt: Preempt,
    pub prio: &'a [u32],
    pub deadline: &'a [u64],
    /// response-time bound per task to monitor (None ⇒ no obligation)
    pub bounds: &'a [Option<u64>],
    /// under `Preempt::Full`: force a re-decision at least every `quantum` ticks (0 ⇒ only at
    /// releases and completions)
    pub quantum: u32,
    pub tie: &'a TieRule,
    /// stop at this time even if work is pending
    pub time_cap: u64,
    pub stop_at_violation: bool,
    pub record_ties: bool,
}

struct Live {
    spec: usize, // index into jobs
    k: usize,    // job number within its task
    remaining: u64,
    chunk_idx: usize,
    executed: u64,
    /// execution of *other* tasks up to this job's release
    other_before: u64,
}

/// `jobs` must be sorted by (release, task).
pub fn simulate(cfg: &SimConfig, ntasks: usize, jobs: &[JobSpec]) -> SimResult {
    let mut res = SimResult {
        max_resp: vec![0; ntasks],
        worst: vec![None; ntasks],
        completed: vec![0; ntasks],
        delayed_by_other: vec![false; ntasks],
        violation: None,
        fingerprint: 0,
        end_time: 0,
        busy_ticks: 0,
        drained: true,
        probes: Probes::default(),
        tie_log: Vec::new(),
    };
    let mut fp = Fingerprint::new();
    let mut queues: Vec<VecDeque<Live>> = (0..ntasks).map(|_| VecDeque::new()).collect();
    let mut job_counter = vec![0usize; ntasks];
    let mut exec_total = vec![0u64; ntasks];
    let mut next_rel = 0usize;
    let mut t: u64 = 0;
    // the chunk that has just been executed: (task, priority key of its job, start)
    let mut prev_chunk: Option<(usize, (u64, u64), u64)> = None;
    // the job that ran last and is still incomplete (for the preemption probe)
    let mut last_ran: Option<usize> = None;
    let mut bw_start: u64 = 0;
    let mut idle = true;
    let mut script_pos = 0usize;
    let mut cands: Vec<usize> = Vec::with_capacity(ntasks);

    let key = |task: usize, release: u64| -> (u64, u64) {
        // smaller key = higher priority
        match cfg.policy {
            Policy::Fp => (u64::MAX - cfg.prio[task] as u64, 0),
            Policy::Edf => (release + cfg.deadline[task], 0),
            Policy::Fifo => (release, 0),
        }
    };

    'outer: loop {
        let pending = queues.iter().any(|q| !q.is_empty());
        if !pending {
            if next_rel >= jobs.len() {
                break;
            }
            // discrete-event skip over idle time
            if jobs[next_rel].release > t {
                res.probes.idle_ticks += jobs[next_rel].release - t;
                t = jobs[next_rel].release;
                prev_chunk = None;
            }
            idle = true;
        }
        // releases visible at t
        while next_rel < jobs.len() && jobs[next_rel].release <= t {
            let j = &jobs[next_rel];
            let k = job_counter[j.task];
            job_counter[j.task] += 1;
            let mut other_before = res.busy_ticks - exec_total[j.task];
            if j.release < t {
                // arrived while a non-preemptive chunk was running
                if let Some((r, rkey, _start)) = prev_chunk {
                    if r != j.task {
                        other_before -= t - j.release;
                        if key(j.task, j.release) < rkey {
                            res.probes.np_blocking += 1;
                        }
                    }
                }
            }
            queues[j.task].push_back(Live {
                spec: next_rel,
                k,
                remaining: j.cost(),
                chunk_idx: 0,
                executed: 0,
                other_before,
            });
            next_rel += 1;
        }
        if idle {
            idle = false;
            bw_start = t;
            res.probes.busy_windows += 1;
        }

        // monitor: a pending head job whose bound has expired
        for task in 0..ntasks {
            if let (Some(head), Some(b)) = (queues[task].front(), cfg.bounds[task]) {
                let rel = jobs[head.spec].release;
                if t >= rel + b && res.violation.is_none() {
                    res.violation = Some(Violation {
                        task,
                        job_k: head.k,
                        release: rel,
                        bound: b,
                        observed: t - rel,
                        completed: false,
                    });
                    if cfg.stop_at_violation {
                        res.drained = false;
                        break 'outer;
                    }
                }
            }
        }
        if t >= cfg.time_cap {
            res.drained = false;
            break;
        }

        // decision (we are at a chunk boundary by construction)
        res.probes.decisions += 1;
        cands.clear();
        let mut best: Option<(u64, u64)> = None;
        for task in 0..ntasks {
            if let Some(head) = queues[task].front() {
                let kk = key(task, jobs[head.spec].release);
                match best {
                    Some(b) if kk > b => {}
                    Some(b) if kk == b => cands.push(task),
                    _ => {
                        best = Some(kk);
                        cands.clear();
                        cands.push(task);
                    }
                }
            }
        }
        let pick = if cands.len() == 1 {
            cands[0]
        } else {
            res.probes.ties += 1;
            if cfg.policy == Policy::Edf {
                res.probes.deadline_ties += 1;
            }
            let idx = match cfg.tie {
                TieRule::First => 0,
                TieRule::Last => cands.len() - 1,
                TieRule::Hashed { salt } => {
                    (splitmix(*salt ^ t.wrapping_mul(0x9E37_79B9)) % cands.len() as u64) as usize
                }
                TieRule::VictimLoses { victim, salt } => {
                    let others: Vec<usize> =
                        (0..cands.len()).filter(|i| cands[*i] != *victim).collect();
                    if others.len() < cands.len() {
                        res.probes.ties_against_victim += 1;
                    }
                    others[(splitmix(*salt ^ t.wrapping_mul(0x9E37_79B9)) % others.len() as u64)
                        as usize]
                }
                TieRule::Script(s) => {
                    let c = s.get(script_pos).copied().unwrap_or(0) as usize;
                    script_pos += 1;
                    c.min(cands.len() - 1)
                }
            };
            if cfg.record_ties {
                res.tie_log.push(idx as u16);
            }
            cands[idx]
        };
        if let Some(prev) = last_ran {
            if prev != pick {
                res.probes.preemptions += 1;
            }
        }
        // length of the chunk that starts now
        let head = queues[pick].front().unwrap();
        let spec = &jobs[head.spec];
        let run_for = match cfg.preempt {
            Preempt::Full => {
                let mut len = head.remaining;
                if next_rel < jobs.len() {
                    len = len.min(jobs[next_rel].release - t);
                }
                if cfg.quantum > 0 {
                    len = len.min(cfg.quantum as u64);
                }
                len
            }
            _ => spec.chunks[head.chunk_idx] as u64,
        };
        fp.add(t ^ ((pick as u64) << 40) ^ ((head.k as u64) << 48));
        prev_chunk = Some((pick, key(pick, spec.release), t));

        // execute: the chunk runs without a scheduling decision
        t += run_for;
        res.busy_ticks += run_for;
        exec_total[pick] += run_for;
        let head = queues[pick].front_mut().unwrap();
        head.remaining -= run_for;
        head.executed += run_for;
        if cfg.preempt != Preempt::Full {
            head.chunk_idx += 1;
        }
        last_ran = Some(pick);
        if head.remaining == 0 {
            let live = queues[pick].pop_front().unwrap();
            let rel = jobs[live.spec].release;
            let resp = t - rel;
            res.completed[pick] += 1;
            let other_now = res.busy_ticks - exec_total[pick];
            if other_now > live.other_before {
                res.delayed_by_other[pick] = true;
            }
            if resp > res.max_resp[pick] {
                res.max_resp[pick] = resp;
                res.worst[pick] = Some((live.k, rel, rel.saturating_sub(bw_start)));
            }
            fp.add(0xC0 ^ t ^ ((pick as u64) << 40));
            if let Some(b) = cfg.bounds[pick] {
                if resp > b && res.violation.is_none() {
                    res.violation = Some(Violation {
                        task: pick,
                        job_k: live.k,
                        release: rel,
                        bound: b,
                        observed: resp,
                        completed: true,
                    });
                    if cfg.stop_at_violation {
                        res.drained = false;
                        break 'outer;
                    }
                }
            }
            last_ran = None;
        }
    }
    res.end_time = t;
    res.fingerprint = fp.finish();
    res
}
