//! Minimal JSON value + writer (no dependencies).

use std::fmt::Write;

#[derive(Clone, Debug)]
pub enum Json {
    Int(i128),
    Float(f64),
    Str(String),
    Arr(Vec<Json>),
    Obj(Vec<(String, Json)>),
}

impl Json {
    pub fn obj() -> Json {
        Json::Obj(Vec::new())
    }
    pub fn set(&mut self, k: &str, v: Json) -> &mut Json {
        if let Json::Obj(items) = self {
            if let Some(slot) = items.iter_mut().find(|(kk, _)| kk == k) {
                slot.1 = v;
            } else {
                items.push((k.to_string(), v));
            }
        }
        self
    }
    pub fn str(s: impl Into<String>) -> Json {
        Json::Str(s.into())
    }
    pub fn arr_str(xs: &[String]) -> Json {
        Json::Arr(xs.iter().map(|x| Json::Str(x.clone())).collect())
    }

    pub fn render(&self) -> String {
        let mut out = String::new();
        self.write(&mut out, 0);
        out.push('\n');
        out
    }

    fn write(&self, out: &mut String, indent: usize) {
        match self {
            Json::Int(i) => {
                let _ = write!(out, "{}", i);
            }
            Json::Float(f) => {
                if f.is_finite() {
                    let _ = write!(out, "{:.3}", f);
                } else {
                    out.push_str("null");
                }
            }
            Json::Str(s) => {
                out.push('"');
                for c in s.chars() {
                    match c {
                        '"' => out.push_str("\\\""),
                        '\\' => out.push_str("\\\\"),
                        '\n' => out.push_str("\\n"),
                        '\t' => out.push_str("\\t"),
                        c if (c as u32) < 0x20 => {
                            let _ = write!(out, "\\u{:04x}", c as u32);
                        }
                        c => out.push(c),
                    }
                }
                out.push('"');
            }
            Json::Arr(xs) => {
                if xs.is_empty() {
                    out.push_str("[]");
                    return;
                }
                out.push_str("[\n");
                for (i, x) in xs.iter().enumerate() {
                    pad(out, indent + 1);
                    x.write(out, indent + 1);
                    if i + 1 < xs.len() {
                        out.push(',');
                    }
                    out.push('\n');
                }
                pad(out, indent);
                out.push(']');
            }
            Json::Obj(items) => {
                if items.is_empty() {
                    out.push_str("{}");
                    return;
                }
                out.push_str("{\n");
                for (i, (k, v)) in items.iter().enumerate() {
                    pad(out, indent + 1);
                    Json::Str(k.clone()).write(out, indent + 1);
                    out.push_str(": ");
                    v.write(out, indent + 1);
                    if i + 1 < items.len() {
                        out.push(',');
                    }
                    out.push('\n');
                }
                pad(out, indent);
                out.push('}');
            }
        }
    }
}

fn pad(out: &mut String, n: usize) {
    for _ in 0..n {
        out.push(' ');
    }
}
