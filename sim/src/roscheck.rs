//! C04 (ECRTS'19 analyses) and C05 (RTSS'21 rr / bw analyses): workloads, the calls into the
//! real analyses, adversarial schedules for the executor + reservation stubs, monitoring,
//! replay and minimisation.

use std::fmt::Write as _;

use response_time_analysis::arrival::ArrivalBound;
use response_time_analysis::demand::{Aggregate, RBF};
use response_time_analysis::ros2;
use response_time_analysis::wcet::{JobCostModel, Scalar};

use crate::analysis::{guarded, outcome_of, Outcome};
use crate::desc::{d, du, parse_supply, s, su, ArrDesc, CostDesc, SupDesc};
use crate::gen::{random_arrival, ArrSwarm};
use crate::harness::{components_json, finish, Options};
use crate::json::Json;
use crate::release::{generate, Adm, RelStats, RelStrategy};
use crate::rng::{hash_str, Rng};
use crate::ros::{
    bits_text, parse_bits, parse_cb, run_executor, supply_legal, CbDesc, CbKind, Entity,
    ExecConfig, ExecResult, RosViolation, RosWorkload, SrcArrival, SupPolicy,
};
use crate::stats::{run_parallel_then, Acc, Counters, Distinct, Report};

#[derive(Clone, Copy, Debug, PartialEq, Eq)]
pub enum Analysis {
    /// ECRTS'19: event source / timer / polling-point callback (independent callbacks)
    EcrtsPp,
    /// ECRTS'19: timers + processing chains
    EcrtsChain,
    Rr,
    Bw,
}

impl Analysis {
    pub fn name(self) -> &'static str {
        match self {
            Analysis::EcrtsPp => "ecrts19-pp",
            Analysis::EcrtsChain => "ecrts19-chain",
            Analysis::Rr => "rr",
            Analysis::Bw => "bw",
        }
    }
    pub fn parse(s: &str) -> Option<Analysis> {
        match s {
            "ecrts19-pp" => Some(Analysis::EcrtsPp),
            "ecrts19-chain" => Some(Analysis::EcrtsChain),
            "rr" => Some(Analysis::Rr),
            "bw" => Some(Analysis::Bw),
            _ => None,
        }
    }
}

type DynRbf = RBF<Box<dyn ArrivalBound>, Box<dyn JobCostModel>>;

fn rbf(arr: &ArrDesc, cost: u64) -> DynRbf {
    RBF::new(arr.build(), Box::new(Scalar::new(s(cost))) as Box<dyn JobCostModel>)
}

/// RBF of an independent callback with its own cost model.
/// A cost model the *user* wrote against the public trait: it forwards `job_cost_iter` to the
/// callback's real model and relies on the trait's DEFAULT `cost_of_jobs` and `least_wcet`.
struct UserCostWrap(Box<dyn JobCostModel>);

impl JobCostModel for UserCostWrap {
    fn job_cost_iter<'a>(&'a self) -> Box<dyn Iterator<Item = response_time_analysis::time::Service> + 'a> {
        self.0.job_cost_iter()
    }
}

/// The callback's cost model as handed to the analyses: every third callback (a function of the
/// callback, so replay files reproduce it) goes through [UserCostWrap].
fn cost_model_of(cb: &CbDesc) -> Box<dyn JobCostModel> {
    let inner = cb.cost_desc().build();
    if (cb.wcet + cb.prio as u64) % 3 == 0 {
        Box::new(UserCostWrap(inner))
    } else {
        inner
    }
}

fn rbf_cb(cb: &CbDesc) -> DynRbf {
    RBF::new(cb.arr.as_ref().unwrap().build(), cost_model_of(cb))
}

pub struct Bounds {
    pub cb: Vec<Option<u64>>,
    pub chain: Vec<Option<u64>>,
    pub outcomes: Vec<(Entity, Outcome)>,
}

/// ECRTS'19 analyses.  `loose_blocking`: use `max cost` instead of the tightest `max cost - 1`.
pub fn ecrts_bounds(wl: &RosWorkload, which: Analysis, loose_blocking: bool) -> Bounds {
    let n = wl.cbs.len();
    let mut b = Bounds {
        cb: vec![None; n],
        chain: vec![None; n],
        outcomes: Vec::new(),
    };
    let limit = d(wl.limit);
    let heads = wl.heads();
    // a workload consisting of a single callback is an event source served alone
    if n == 1 && wl.cbs[0].kind == CbKind::Polled && which == Analysis::EcrtsPp {
        let o = outcome_of(guarded(|| {
            let sup = wl.supply.build();
            let r = rbf_cb(&wl.cbs[0]);
            ros2::rta_event_source(&*sup, &r, limit)
        }));
        b.cb[0] = o.bound();
        b.outcomes.push((Entity::Cb(0), o));
        return b;
    }
    // timers (both families)
    for i in 0..n {
        if wl.cbs[i].kind != CbKind::Timer {
            continue;
        }
        let o = outcome_of(guarded(|| {
            let sup = wl.supply.build();
            let own = rbf_cb(&wl.cbs[i]);
            let hp: Vec<DynRbf> = (0..n)
                .filter(|j| *j != i && wl.cbs[*j].kind == CbKind::Timer && wl.cbs[*j].prio < wl.cbs[i].prio)
                .map(|j| rbf_cb(&wl.cbs[j]))
                .collect();
            let blocking = (0..n)
                .filter(|j| {
                    *j != i
                        && (wl.cbs[*j].kind == CbKind::Polled
                            || (wl.cbs[*j].kind == CbKind::Timer && wl.cbs[*j].prio > wl.cbs[i].prio))
                })
                .map(|j| wl.cbs[j].wcet)
                .max()
                .unwrap_or(0);
            let blocking = if loose_blocking { blocking } else { blocking.saturating_sub(1) };
            ros2::rta_timer(&*sup, &own, &Aggregate::new(hp), s(blocking), limit)
        }));
        b.cb[i] = o.bound();
        b.outcomes.push((Entity::Cb(i), o));
    }
    match which {
        Analysis::EcrtsPp => {
            for i in 0..n {
                if wl.cbs[i].kind != CbKind::Polled {
                    continue;
                }
                let o = outcome_of(guarded(|| {
                    let sup = wl.supply.build();
                    let own = rbf_cb(&wl.cbs[i]);
                    let others: Vec<DynRbf> = (0..n)
                        .filter(|j| *j != i)
                        .map(|j| rbf_cb(&wl.cbs[j]))
                        .collect();
                    ros2::rta_polling_point_callback(&*sup, &own, &Aggregate::new(others), limit)
                }));
                b.cb[i] = o.bound();
                b.outcomes.push((Entity::Cb(i), o));
            }
        }
        Analysis::EcrtsChain => {
            for &h in &heads {
                if wl.cbs[h].kind != CbKind::Polled {
                    continue;
                }
                let chain = wl.chain_of(h);
                // Two ways of handing a chain's demand to the analysis (a function of the
                // workload, so a replay file reproduces it): one RBF with the summed WCET, or
                // one RBF per callback (all on the chain's source arrival model), aggregated
                // — `demand::Aggregate` for even, `demand::Slice` for odd chain heads.
                let all_w: u64 = wl.cbs.iter().map(|c| c.wcet).sum();
                let per_callback = (all_w + n as u64) % 2 == 1;
                let o = outcome_of(guarded(|| {
                    let sup = wl.supply.build();
                    let src = wl.cbs[h].arr.as_ref().unwrap();
                    let last = *chain.last().unwrap();
                    let total: u64 = chain.iter().map(|c| wl.cbs[*c].wcet).sum();
                    let last_rbf = rbf(src, wl.cbs[last].wcet);
                    if !per_callback {
                        let prefix_rbf = rbf(src, total - wl.cbs[last].wcet);
                        let full_rbf = rbf(src, total);
                        let others: Vec<DynRbf> = heads
                            .iter()
                            .filter(|o| **o != h)
                            .map(|o| {
                                let tot: u64 = wl.chain_of(*o).iter().map(|c| wl.cbs[*c].wcet).sum();
                                rbf(wl.cbs[*o].arr.as_ref().unwrap(), tot)
                            })
                            .collect();
                        ros2::rta_processing_chain(&*sup, &last_rbf, &prefix_rbf, &full_rbf, &Aggregate::new(others), limit)
                    } else {
                        let prefix: Vec<DynRbf> = chain[..chain.len() - 1]
                            .iter()
                            .map(|c| rbf(src, wl.cbs[*c].wcet))
                            .collect();
                        let full: Vec<DynRbf> = chain.iter().map(|c| rbf(src, wl.cbs[*c].wcet)).collect();
                        let mut others: Vec<DynRbf> = Vec::new();
                        for o in heads.iter().filter(|o| **o != h) {
                            let osrc = wl.cbs[*o].arr.as_ref().unwrap();
                            for c in wl.chain_of(*o) {
                                others.push(rbf(osrc, wl.cbs[c].wcet));
                            }
                        }
                        if h % 2 == 0 {
                            ros2::rta_processing_chain(
                                &*sup,
                                &last_rbf,
                                &Aggregate::new(prefix),
                                &Aggregate::new(full),
                                &Aggregate::new(others),
                                limit,
                            )
                        } else {
                            ros2::rta_processing_chain(
                                &*sup,
                                &last_rbf,
                                &response_time_analysis::demand::Slice::of(&prefix[..]),
                                &response_time_analysis::demand::Slice::of(&full[..]),
                                &response_time_analysis::demand::Slice::of(&others[..]),
                                limit,
                            )
                        }
                    }
                }));
                b.chain[h] = o.bound();
                b.outcomes.push((Entity::Chain(h), o));
            }
        }
        _ => {}
    }
    b
}

#[derive(Debug)]
pub enum FixedPoint {
    Vector(Vec<u64>),
    /// the analysis reported divergence (or did not settle within the iteration cap): no claim
    NoClaim(#[allow(dead_code)] &'static str),
    Panic,
}

/// RTSS'21: iterate the singleton-subchain analysis upwards from the WCETs until the assumed
/// response-time vector is reproduced exactly.
pub fn rtss_fixed_point(wl: &RosWorkload, which: Analysis) -> FixedPoint {
    let res = guarded(|| -> FixedPoint {
        let n = wl.cbs.len();
        let sup = wl.supply.build();
        let arrs: Vec<Box<dyn ArrivalBound>> = wl.cbs.iter().map(|c| c.arr.as_ref().unwrap().build()).collect();
        let costs: Vec<Box<dyn JobCostModel>> = wl
            .cbs
            .iter()
            .map(cost_model_of)
            .collect();
        // the priority VALUES handed to the analysis only have to be order-isomorphic to the
        // executor's registration order: half of the workloads use negative values
        let total_w: u64 = wl.cbs.iter().map(|c| c.wcet).sum();
        let shift: i32 = if total_w % 2 == 0 { wl.cbs.len() as i32 + 1 } else { 0 };
        let kinds: Vec<ros2::rr::CallbackType> = wl
            .cbs
            .iter()
            .map(|c| match (c.kind, c.known_prio) {
                (CbKind::Timer, _) => ros2::rr::CallbackType::Timer,
                (CbKind::Polled, true) => ros2::rr::CallbackType::Polled(c.prio as i32 - shift),
                (CbKind::Polled, false) => ros2::rr::CallbackType::PolledUnknownPrio,
            })
            .collect();
        let limit = d(wl.limit);
        let mut r: Vec<u64> = wl.cbs.iter().map(|c| c.wcet).collect();
        for _ in 0..200 {
            let mut next = Vec::with_capacity(n);
            match which {
                Analysis::Rr => {
                    let cbs: Vec<ros2::rr::Callback<dyn ArrivalBound, dyn JobCostModel>> = (0..n)
                        .map(|i| ros2::rr::Callback::new(d(r[i]), &*arrs[i], &*costs[i], kinds[i]))
                        .collect();
                    for i in 0..n {
                        match ros2::rr::rta_subchain(&*sup, &cbs[..], &[&cbs[i]], limit) {
                            Ok(v) => next.push(du(v)),
                            Err(_) => return FixedPoint::NoClaim("analysis reported divergence"),
                        }
                    }
                }
                _ => {
                    let cbs: Vec<ros2::bw::Callback<dyn ArrivalBound, dyn JobCostModel>> = (0..n)
                        .map(|i| ros2::bw::Callback::new(d(r[i]), &*arrs[i], &*costs[i], kinds[i]))
                        .collect();
                    for i in 0..n {
                        match ros2::bw::rta_subchain(&*sup, &cbs[..], &[&cbs[i]], limit) {
                            Ok(v) => next.push(du(v)),
                            Err(_) => return FixedPoint::NoClaim("analysis reported divergence"),
                        }
                    }
                }
            }
            if next == r {
                return FixedPoint::Vector(r);
            }
            // upwards: an assumed bound never shrinks during the iteration
            for i in 0..n {
                r[i] = r[i].max(next[i]);
            }
        }
        FixedPoint::NoClaim("no fixed point within 200 iterations")
    });
    res.unwrap_or(FixedPoint::Panic)
}

pub fn bounds_for(wl: &RosWorkload, which: Analysis, loose: bool) -> Bounds {
    match which {
        Analysis::EcrtsPp | Analysis::EcrtsChain => ecrts_bounds(wl, which, loose),
        Analysis::Rr | Analysis::Bw => {
            let n = wl.cbs.len();
            let mut b = Bounds {
                cb: vec![None; n],
                chain: vec![None; n],
                outcomes: Vec::new(),
            };
            match rtss_fixed_point(wl, which) {
                FixedPoint::Vector(v) => {
                    for i in 0..n {
                        b.cb[i] = Some(v[i]);
                        b.outcomes.push((Entity::Cb(i), Outcome::Ok(v[i])));
                    }
                }
                FixedPoint::NoClaim(_) => {
                    for i in 0..n {
                        b.outcomes.push((Entity::Cb(i), Outcome::Err));
                    }
                }
                FixedPoint::Panic => {
                    for i in 0..n {
                        b.outcomes.push((Entity::Cb(i), Outcome::Panic));
                    }
                }
            }
            b
        }
    }
}

// ---------------------------------------------------------------------------
// workload generation

fn random_supply(rng: &mut Rng) -> SupDesc {
    match rng.below(8) {
        0..=1 => SupDesc::Dedicated,
        2..=4 => {
            let p = rng.range(2, 14);
            let q = rng.range(1, p);
            SupDesc::Periodic(q, p)
        }
        _ => {
            let p = rng.range(2, 14);
            let q = rng.range(1, p);
            let dl = rng.range(q, p);
            SupDesc::Constrained(q, dl, p)
        }
    }
}

fn bandwidth_pm(sup: &SupDesc) -> u64 {
    let (q, _, p) = sup.qdp();
    q * 1000 / p
}

fn ros_arr_swarm(rng: &mut Rng) -> ArrSwarm {
    let mut sw = ArrSwarm::random(rng);
    // vectors / Rc wrappers add nothing here; keep prefix and propagated models rare
    sw.weights[7] = 0;
    sw.weights[8] = 0;
    // now and then a user-defined model (the trait's default brute-force `steps_iter`)
    sw.allow_user = true;
    if sw.weights.iter().sum::<u64>() == 0 {
        sw.weights[1] = 1;
    }
    sw
}

/// Cyclic run maxima of a per-instance WCET pattern: `c[n-1]` = largest total of `n` consecutive
/// pattern entries (cyclically).  Sub-additive and monotone by construction.
pub fn cyclic_cost_prefix(pattern: &[u64], entries: usize) -> Vec<u64> {
    let l = pattern.len();
    (1..=entries)
        .map(|n| {
            (0..l)
                .map(|st| (0..n).map(|k| pattern[(st + k) % l]).sum::<u64>())
                .max()
                .unwrap_or(0)
        })
        .collect()
}

/// (wcet, cost model handed to the analysis, per-instance pattern of the execution-time source)
fn gen_cost(rng: &mut Rng, max_w: u64, allow_curves: bool) -> (u64, Option<CostDesc>, Vec<u64>) {
    if !allow_curves || rng.chance(3, 5) {
        return (rng.range(1, max_w), None, Vec::new());
    }
    let len = rng.range(2, 5) as usize;
    let pattern: Vec<u64> = (0..len).map(|_| rng.range(1, max_w)).collect();
    let entries = rng.range(len as u64, 2 * len as u64) as usize;
    let prefix = cyclic_cost_prefix(&pattern, entries);
    let wcet = prefix[0];
    let (cost, pattern) = match rng.below(3) {
        0 => (CostDesc::Curve(prefix), pattern),
        1 => (CostDesc::Extrap(prefix), pattern),
        _ => {
            // `wcet::Multiframe` charges n jobs the first n frames (from frame 0).  That bounds
            // every run of n consecutive jobs of a source that cycles through the frames from an
            // arbitrary phase iff the frame vector is accumulatively monotonic (checking runs of up
            // to one cycle suffices); a non-increasing vector always is.  (The scenario check re-validates every run against the library's
            // `cost_of_jobs`.)
            let l = pattern.len();
            let runs = cyclic_cost_prefix(&pattern, l);
            let am_rotation = (0..l).find(|r| {
                (1..=l).all(|n| (0..n).map(|k| pattern[(r + k) % l]).sum::<u64>() == runs[n - 1])
            });
            let frames: Vec<u64> = match am_rotation {
                // an accumulatively monotonic rotation of the pattern itself (cheap frames may
                // precede expensive ones: `least_wcet(n)` is not simply the n-th frame)
                Some(r) => (0..l).map(|k| pattern[(r + k) % l]).collect(),
                None => {
                    let mut f = pattern;
                    f.sort_unstable_by(|a, b| b.cmp(a));
                    f
                }
            };
            (CostDesc::Multiframe(frames.clone()), frames)
        }
    };
    (wcet, Some(cost), pattern)
}

/// Period for a callback of cost `w` so that it uses roughly `share` per mille of the processor.
fn period_for(w: u64, share_pm: u64) -> u64 {
    (w * 1000 / share_pm.max(10)).clamp(2, 400)
}

pub fn gen_workload(rng: &mut Rng, which: Analysis) -> RosWorkload {
    let supply = random_supply(rng);
    let bw = bandwidth_pm(&supply);
    let util_pct = match rng.below(10) {
        0 => rng.range(15, 40),
        1..=4 => rng.range(40, 80),
        5..=7 => rng.range(75, 97),
        _ => rng.range(90, 100), // long busy windows: worst case at a late offset
    };
    let total_share = bw * util_pct / 100; // per mille of the processor
    let sw = ros_arr_swarm(rng);
    let mut cbs: Vec<CbDesc> = Vec::new();
    let (n_timers, n_polled_heads) = match which {
        Analysis::EcrtsPp => {
            if rng.chance(1, 6) {
                (0, 1) // an event source served alone
            } else if rng.chance(1, 5) {
                (rng.range(2, 4), rng.below(2)) // timer-heavy (long timer busy windows)
            } else {
                (rng.below(3), rng.range(1, 4))
            }
        }
        Analysis::EcrtsChain => (rng.weighted(&[3, 3, 3, 1]) as u64, rng.range(1, 3)),
        _ => {
            let t = rng.weighted(&[3, 3, 3, 1, 1]) as u64;
            (t, rng.range(if t == 0 { 1 } else { 0 }, 4))
        }
    };
    let n_heads = (n_timers + n_polled_heads).max(1);
    let mut shares: Vec<u64> = (0..n_heads).map(|_| rng.range(1, 100)).collect();
    let tot: u64 = shares.iter().sum();
    for sh in shares.iter_mut() {
        *sh = (*sh * total_share / tot).max(5);
    }
    let max_w = *rng.pick(&[3u64, 6, 9]);
    // non-scalar job-cost models (cost curves inferred from a cyclic execution-time pattern) for
    // independent callbacks; chains keep scalar costs (the chain analysis takes one RBF per chain)
    let curves = rng.chance(1, 2);
    for t in 0..n_timers {
        let (w, cost, pattern) = gen_cost(rng, max_w, curves);
        let mean = if pattern.is_empty() { w } else { (pattern.iter().sum::<u64>() / pattern.len() as u64).max(1) };
        let period = period_for(mean, shares[t as usize]);
        // timers are periodic in ROS 2, but the analysis admits any curve
        let arr = if rng.chance(1, 2) {
            ArrDesc::Periodic(period)
        } else {
            random_arrival(rng, period, &sw)
        };
        cbs.push(CbDesc {
            kind: CbKind::Timer,
            prio: t as u32,
            wcet: w,
            arr: Some(arr),
            succ: None,
            known_prio: true,
            cost,
            pattern,
        });
    }
    let mut polled_prio = 0u32;
    for hidx in 0..n_polled_heads {
        let len = if which == Analysis::EcrtsChain {
            rng.range(1, 4) as usize
        } else {
            1
        };
        let (w0, cost0, pattern0) = gen_cost(rng, max_w, curves && len == 1);
        let mut ws: Vec<u64> = (0..len).map(|_| rng.range(1, max_w)).collect();
        ws[0] = w0;
        let total_w: u64 = if pattern0.is_empty() {
            ws.iter().sum()
        } else {
            (pattern0.iter().sum::<u64>() / pattern0.len() as u64).max(1)
        };
        let share = shares[(n_timers + hidx) as usize % shares.len()];
        let period = period_for(total_w, share);
        let arr = random_arrival(rng, period, &sw);
        let first = cbs.len();
        for (k, w) in ws.iter().enumerate() {
            cbs.push(CbDesc {
                kind: CbKind::Polled,
                prio: 0,
                wcet: *w,
                arr: if k == 0 { Some(arr.clone()) } else { None },
                succ: if k + 1 < len { Some(first + k + 1) } else { None },
                known_prio: !matches!(which, Analysis::Rr | Analysis::Bw) || rng.chance(1, 2),
                cost: if k == 0 { cost0.clone() } else { None },
                pattern: if k == 0 { pattern0.clone() } else { Vec::new() },
            });
        }
    }
    // registration order (priority) of polled callbacks: a random permutation
    let polled: Vec<usize> = (0..cbs.len()).filter(|i| cbs[*i].kind == CbKind::Polled).collect();
    let mut order: Vec<u32> = (0..polled.len() as u32).collect();
    rng.shuffle(&mut order);
    for (k, i) in polled.iter().enumerate() {
        cbs[*i].prio = order[k];
        polled_prio = polled_prio.max(order[k]);
    }
    RosWorkload {
        cbs,
        supply,
        limit: *rng.pick(&[300u64, 800, 2000, 2000]),
    }
}

// ---------------------------------------------------------------------------
// schedules

pub const ROS_SCAN: u64 = 1300;
pub const ROS_KMAX: usize = 120;

pub struct RosPrep {
    /// per callback (heads only): admissibility table of its external arrival model
    pub adm: Vec<Option<Adm>>,
}

pub fn ros_prepare(wl: &RosWorkload) -> Option<RosPrep> {
    guarded(|| {
        let adm = wl
            .cbs
            .iter()
            .map(|c| {
                c.arr.as_ref().map(|a| {
                    let ab = a.build();
                    Adm::tabulate(&*ab, ROS_SCAN, ROS_KMAX)
                })
            })
            .collect();
        RosPrep { adm }
    })
}

#[derive(Clone, Debug, PartialEq, Eq)]
pub struct RosScenario {
    pub which: Analysis,
    pub loose_blocking: bool,
    pub wl: RosWorkload,
    pub arrivals: Vec<SrcArrival>,
    pub phase: u64,
    pub policy: SupPolicy,
    pub time_cap: u64,
}

#[derive(Clone, Copy, Debug, PartialEq, Eq)]
pub enum RosPattern {
    Random,
    /// synchronous burst of everything at the instant the early budget is exhausted, budget
    /// late from then on; optionally one blocker started one tick earlier
    AlignedBurst,
}

pub fn gen_ros_schedule(
    wl: &RosWorkload,
    prep: &RosPrep,
    which: Analysis,
    loose: bool,
    rng: &mut Rng,
    c: &mut Counters,
    structured: Option<usize>,
) -> RosScenario {
    let (q, dl, p) = wl.supply.qdp();
    let heads = wl.heads();
    let horizon = rng.range(60, 500).min(ROS_SCAN - 100);
    let pattern = if structured.is_some() || rng.chance(1, 3) {
        RosPattern::AlignedBurst
    } else {
        RosPattern::Random
    };
    let exec_full = structured.is_some() || rng.chance(3, 5);
    let mut arrivals: Vec<SrcArrival> = Vec::new();
    let mut rs = RelStats::default();
    let (phase, policy, burst_at) = match pattern {
        RosPattern::AlignedBurst => {
            let k = rng.range(1, 3);
            let policy = if wl.supply == SupDesc::Dedicated {
                SupPolicy::Early
            } else if rng.chance(1, 4) {
                SupPolicy::AdaptiveWaste
            } else {
                SupPolicy::EarlyThenLate { switch: k }
            };
            // end of the early budget of period k-1
            let t0 = (k - 1) * p + q;
            let _ = dl;
            (0u64, policy, t0)
        }
        RosPattern::Random => {
            let policy = match rng.below(7) {
                0 => SupPolicy::Early,
                1 => SupPolicy::Late,
                2 => SupPolicy::EarlyThenLate { switch: rng.range(0, 6) },
                3 => SupPolicy::Random { pct: rng.range(10, 90), salt: rng.next_u64() },
                4 => SupPolicy::OverProvision { pct: rng.range(10, 90), salt: rng.next_u64() },
                _ => SupPolicy::AdaptiveWaste,
            };
            (rng.below(p), policy, 0)
        }
    };
    // the blocker of the structured pattern: the longest callback other than the victim's chain
    let victim = structured.unwrap_or_else(|| *rng.pick(&heads));
    let victim_chain = wl.chain_of(victim);
    let blocker_head = if pattern == RosPattern::AlignedBurst && burst_at > 0 && rng.chance(2, 3) {
        heads
            .iter()
            .copied()
            .filter(|h| !victim_chain.contains(h) && wl.cbs[*h].wcet >= 2)
            .max_by_key(|h| (wl.cbs[*h].wcet, *h))
    } else {
        None
    };
    for &h in &heads {
        let adm = prep.adm[h].as_ref().unwrap();
        let strat = match pattern {
            RosPattern::AlignedBurst => {
                if Some(h) == blocker_head {
                    c.inc("fault.blocker_aligned");
                    RelStrategy::Dense { phase: burst_at - 1 }
                } else if h == victim && rng.chance(1, 3) {
                    RelStrategy::Anchored { anchor: burst_at + rng.below(3 * p + 10) }
                } else {
                    RelStrategy::Dense { phase: burst_at }
                }
            }
            RosPattern::Random => match rng.below(6) {
                0 | 1 => RelStrategy::Dense { phase: rng.below(2 * p + 10) },
                2 => RelStrategy::RandomDelay {
                    phase: rng.below(2 * p + 10),
                    p: rng.range(5, 50),
                    max: rng.range(1, adm.dist(2).clamp(1, 100)),
                },
                3 => RelStrategy::Stretch { phase: 0, p: rng.range(3, 20), gap: rng.range(20, 200) },
                4 => RelStrategy::Anchored { anchor: rng.below(horizon / 2 + 1) },
                _ => RelStrategy::Dense { phase: 0 },
            },
        };
        let rel = generate(adm, &strat, horizon, ROS_KMAX, rng, &mut rs);
        if matches!(strat, RelStrategy::Dense { .. }) && !rel.is_empty() {
            c.inc("fault.synchronous_burst");
        }
        let chain = wl.chain_of(h);
        let rot = rng.below(16) as usize;
        for (k_inst, t) in rel.into_iter().enumerate() {
            let costs: Vec<u32> = chain
                .iter()
                .map(|cb| {
                    let pat = &wl.cbs[*cb].pattern;
                    let w = if pat.is_empty() {
                        wl.cbs[*cb].wcet
                    } else {
                        c.inc("fault.cost_follows_frame_pattern");
                        pat[(rot + k_inst) % pat.len()]
                    };
                    if exec_full || rng.chance(1, 2) {
                        w as u32
                    } else {
                        c.inc("fault.early_completion");
                        rng.range(1, w) as u32
                    }
                })
                .collect();
            arrivals.push(SrcArrival { head: h, t, costs });
        }
    }
    c.add("fault.jitter_delay", rs.delayed);
    c.add("fault.sporadic_stretch", rs.stretched);
    c.add("fault.simultaneous_release", rs.simultaneous);
    arrivals.sort_by(|a, b| (a.t, a.head).cmp(&(b.t, b.head)));
    let total: u64 = arrivals.iter().map(|a| a.costs.iter().map(|x| *x as u64).sum::<u64>()).sum();
    let last = arrivals.last().map(|a| a.t).unwrap_or(0);
    let time_cap = last + (total + 2) * p / q + 6 * p + 10;
    RosScenario {
        which,
        loose_blocking: loose,
        wl: wl.clone(),
        arrivals,
        phase,
        policy,
        time_cap: time_cap.min(last + 4000),
    }
}

pub fn run_ros(sc: &RosScenario, bounds: &Bounds) -> ExecResult {
    run_executor(&ExecConfig {
        wl: &sc.wl,
        arrivals: &sc.arrivals,
        phase: sc.phase,
        policy: sc.policy.clone(),
        cb_bounds: &bounds.cb,
        chain_bounds: &bounds.chain,
        time_cap: sc.time_cap,
        stop_at_violation: true,
    })
}

/// Legality of an explicit scenario: workload well-formed, arrivals admissible for the library's
/// curves, costs within [1, WCET], recorded supply legal for the reservation.
pub fn ros_scenario_legal(sc: &RosScenario, bits: Option<&[bool]>) -> Result<(), String> {
    sc.wl.well_formed()?;
    let n = sc.wl.cbs.len();
    let mut per_head: Vec<Vec<u64>> = vec![Vec::new(); n];
    let mut prev = (0u64, 0usize);
    for (i, a) in sc.arrivals.iter().enumerate() {
        if a.head >= n || sc.wl.cbs[a.head].arr.is_none() {
            return Err(format!("arrival {} at a callback without an arrival model", i));
        }
        if i > 0 && (a.t, a.head) < prev {
            return Err("arrivals not sorted".into());
        }
        prev = (a.t, a.head);
        let chain = sc.wl.chain_of(a.head);
        if a.costs.len() != chain.len() {
            return Err(format!("arrival {} has {} costs for a chain of {}", i, a.costs.len(), chain.len()));
        }
        for (c, cb) in a.costs.iter().zip(chain.iter()) {
            if *c == 0 || *c as u64 > sc.wl.cbs[*cb].wcet {
                return Err(format!("arrival {}: cost {} outside [1, {}]", i, c, sc.wl.cbs[*cb].wcet));
            }
        }
        per_head[a.head].push(a.t);
    }
    // every run of consecutive instances of a callback respects its job-cost model (the library's)
    for h in 0..n {
        let cb = &sc.wl.cbs[h];
        if cb.cost.is_none() || cb.arr.is_none() {
            continue;
        }
        let seq: Vec<u64> = sc.arrivals.iter().filter(|a| a.head == h).map(|a| a.costs[0] as u64).collect();
        let desc = cb.cost_desc();
        let m = seq.len();
        let claimed: Vec<u64> = guarded(move || {
            let model = desc.build();
            (0..=m).map(|k| su(model.cost_of_jobs(k))).collect()
        })
        .ok_or_else(|| format!("cost model of callback {} panicked", h))?;
        let mut cum = vec![0u64; m + 1];
        for i in 0..m {
            cum[i + 1] = cum[i] + seq[i];
        }
        for i in 0..m {
            for j in (i + 1)..=m {
                if cum[j] - cum[i] > claimed[j - i] {
                    return Err(format!(
                        "callback {}: instances {}..{} cost {} > cost_of_jobs({}) = {}",
                        h, i, j - 1, cum[j] - cum[i], j - i, claimed[j - i]
                    ));
                }
            }
        }
    }
    for h in 0..n {
        if per_head[h].is_empty() {
            continue;
        }
        let span = per_head[h].last().unwrap() - per_head[h][0] + 2;
        let arr = sc.wl.cbs[h].arr.clone().unwrap();
        let cnt = per_head[h].len();
        let adm = guarded(move || {
            let ab = arr.build();
            Adm::tabulate(&*ab, span, cnt + 1)
        })
        .ok_or_else(|| format!("arrival model of callback {} panicked", h))?;
        adm.validate(&per_head[h]).map_err(|e| format!("callback {}: {}", h, e))?;
    }
    if let Some(b) = bits {
        supply_legal(b, &sc.wl.supply, sc.phase)?;
    }
    if let SupPolicy::Script(b) = &sc.policy {
        supply_legal(b, &sc.wl.supply, sc.phase)?;
    }
    Ok(())
}

pub fn ros_finding_key(sc: &RosScenario, v: &RosViolation) -> String {
    let kind = match v.entity {
        Entity::Chain(_) => "chain".to_string(),
        Entity::Cb(i) => {
            let c = &sc.wl.cbs[i];
            if sc.wl.cbs.len() == 1 && sc.which == Analysis::EcrtsPp {
                "event-source".to_string()
            } else {
                match (c.kind, c.known_prio) {
                    (CbKind::Timer, _) => "timer".to_string(),
                    (CbKind::Polled, true) => "polled".to_string(),
                    (CbKind::Polled, false) => "polled-unknown-prio".to_string(),
                }
            }
        }
    };
    format!("{} {}{}", sc.which.name(), kind, if v.bound == 0 { " bound=0" } else { "" })
}

pub fn ros_summary(sc: &RosScenario, v: &RosViolation) -> String {
    format!(
        "{} on {}: {} instance arriving at {} has bound {} but {} {} time units",
        sc.which.name(),
        sc.wl.supply,
        v.entity,
        v.origin,
        v.bound,
        if v.completed { "completed after" } else { "is still incomplete after" },
        v.observed
    )
}

fn policy_text(p: &SupPolicy) -> String {
    match p {
        SupPolicy::Early => "early".into(),
        SupPolicy::Late => "late".into(),
        SupPolicy::EarlyThenLate { switch } => format!("early-then-late {}", switch),
        SupPolicy::Random { pct, salt } => format!("random {} {}", pct, salt),
        SupPolicy::AdaptiveWaste => "adaptive-waste".into(),
        SupPolicy::OverProvision { pct, salt } => format!("over-provision {} {}", pct, salt),
        SupPolicy::Script(b) => format!("script {}", bits_text(b)),
    }
}

fn parse_policy(s: &str) -> Option<SupPolicy> {
    let t: Vec<&str> = s.split_whitespace().collect();
    let n = |i: usize| -> Option<u64> { t.get(i)?.parse().ok() };
    match *t.first()? {
        "early" => Some(SupPolicy::Early),
        "late" => Some(SupPolicy::Late),
        "early-then-late" => Some(SupPolicy::EarlyThenLate { switch: n(1)? }),
        "random" => Some(SupPolicy::Random { pct: n(1)?, salt: n(2)? }),
        "adaptive-waste" => Some(SupPolicy::AdaptiveWaste),
        "over-provision" => Some(SupPolicy::OverProvision { pct: n(1)?, salt: n(2)? }),
        "script" => Some(SupPolicy::Script(parse_bits(t.get(1).copied().unwrap_or("")))),
        _ => None,
    }
}

impl RosScenario {
    pub fn to_text(&self) -> String {
        let mut out = String::new();
        let _ = writeln!(out, "analysis {}", self.which.name());
        let _ = writeln!(out, "blocking {}", if self.loose_blocking { "loose" } else { "tight" });
        let _ = writeln!(out, "supply {}", self.wl.supply);
        let _ = writeln!(out, "limit {}", self.wl.limit);
        for (i, c) in self.wl.cbs.iter().enumerate() {
            let _ = writeln!(out, "cb {} {}", i, c);
        }
        let _ = writeln!(out, "phase {}", self.phase);
        let _ = writeln!(out, "policy {}", policy_text(&self.policy));
        let _ = writeln!(out, "timecap {}", self.time_cap);
        for a in &self.arrivals {
            let cs: Vec<String> = a.costs.iter().map(|x| x.to_string()).collect();
            let _ = writeln!(out, "arrival {} {} : {}", a.head, a.t, cs.join(" "));
        }
        out
    }

    pub fn from_text(text: &str) -> Result<RosScenario, String> {
        let mut which = None;
        let mut loose = false;
        let mut supply = None;
        let mut limit = None;
        let mut cbs = Vec::new();
        let mut phase = 0;
        let mut policy = SupPolicy::Early;
        let mut time_cap = None;
        let mut arrivals = Vec::new();
        for line in text.lines() {
            let line = line.trim();
            let (head, rest) = line.split_once(' ').unwrap_or((line, ""));
            match head {
                "analysis" => which = Analysis::parse(rest.trim()),
                "blocking" => loose = rest.trim() == "loose",
                "supply" => supply = Some(parse_supply(rest)?),
                "limit" => limit = rest.trim().parse::<u64>().ok(),
                "cb" => {
                    let (_, r2) = rest.trim().split_once(' ').ok_or("bad cb line")?;
                    cbs.push(parse_cb(r2)?);
                }
                "phase" => phase = rest.trim().parse::<u64>().map_err(|e| e.to_string())?,
                "policy" => policy = parse_policy(rest).ok_or("bad policy")?,
                "timecap" => time_cap = rest.trim().parse::<u64>().ok(),
                "arrival" => {
                    let (a, b) = rest.split_once(':').ok_or("arrival line without ':'")?;
                    let hv: Vec<&str> = a.split_whitespace().collect();
                    if hv.len() != 2 {
                        return Err("bad arrival line".into());
                    }
                    arrivals.push(SrcArrival {
                        head: hv[0].parse().map_err(|_| "bad head")?,
                        t: hv[1].parse().map_err(|_| "bad time")?,
                        costs: b
                            .split_whitespace()
                            .map(|x| x.parse::<u32>().map_err(|e| e.to_string()))
                            .collect::<Result<Vec<u32>, String>>()?,
                    });
                }
                _ => {}
            }
        }
        Ok(RosScenario {
            which: which.ok_or("no analysis")?,
            loose_blocking: loose,
            wl: RosWorkload {
                cbs,
                supply: supply.ok_or("no supply")?,
                limit: limit.ok_or("no limit")?,
            },
            arrivals,
            phase,
            policy,
            time_cap: time_cap.unwrap_or(5000),
        })
    }
}

pub fn ros_replay_text(prop: &str, sc: &RosScenario, v: &RosViolation, note: &str) -> String {
    format!(
        "rtasim-replay 1\nproperty {}\nengine ros\n{}expect entity={} origin={} bound={} observed={} completed={}\nnote {}\n",
        prop,
        sc.to_text(),
        v.entity,
        v.origin,
        v.bound,
        v.observed,
        v.completed,
        note
    )
}

/// Check one explicit scenario against the real analysis.
pub fn check_ros_scenario(sc: &RosScenario) -> Result<(Option<RosViolation>, Vec<bool>), String> {
    ros_scenario_legal(sc, None)?;
    let bounds = bounds_for(&sc.wl, sc.which, sc.loose_blocking);
    let res = run_ros(sc, &bounds);
    supply_legal(&res.bits, &sc.wl.supply, sc.phase)
        .map_err(|e| format!("reservation stub left its model: {}", e))?;
    Ok((res.violation, res.bits))
}

fn still_fails(sc: &RosScenario, key: &str) -> Option<(RosViolation, Vec<bool>)> {
    match check_ros_scenario(sc) {
        Ok((Some(v), bits)) if ros_finding_key(sc, &v) == key => Some((v, bits)),
        _ => None,
    }
}

/// Remove the chain starting at `head` from the workload (callback indices are remapped).
fn drop_chain(sc: &RosScenario, head: usize) -> RosScenario {
    let chain = sc.wl.chain_of(head);
    let n = sc.wl.cbs.len();
    let mut map = vec![usize::MAX; n];
    let mut cbs = Vec::new();
    for i in 0..n {
        if !chain.contains(&i) {
            map[i] = cbs.len();
            cbs.push(sc.wl.cbs[i].clone());
        }
    }
    for c in cbs.iter_mut() {
        if let Some(sx) = c.succ {
            c.succ = Some(map[sx]);
        }
    }
    let mut out = sc.clone();
    out.wl.cbs = cbs;
    out.arrivals = sc
        .arrivals
        .iter()
        .filter(|a| a.head != head)
        .map(|a| SrcArrival { head: map[a.head], t: a.t, costs: a.costs.clone() })
        .collect();
    out
}

pub fn minimise_ros(sc: &RosScenario, key: &str, budget: usize) -> (RosScenario, Option<RosViolation>) {
    let mut best = sc.clone();
    let (mut viol, mut bits) = match still_fails(&best, key) {
        Some(x) => x,
        None => return (best, None),
    };
    let mut tries = 0usize;
    let mut progress = true;
    while progress && tries < budget {
        progress = false;
        // 1. drop whole chains / callbacks that are not the violating entity
        let mut hidx = 0;
        loop {
            let heads = best.wl.heads();
            if hidx >= heads.len() || tries >= budget {
                break;
            }
            let h = heads[hidx];
            let involved = match viol.entity {
                Entity::Cb(i) => best.wl.chain_of(h).contains(&i),
                Entity::Chain(hh) => hh == h,
            };
            if !involved && heads.len() > 1 {
                tries += 1;
                let cand = drop_chain(&best, h);
                if let Some((v, b)) = still_fails(&cand, key) {
                    best = cand;
                    viol = v;
                    bits = b;
                    progress = true;
                    continue;
                }
            }
            hidx += 1;
        }
        // 2. cut arrivals after the violating instant
        {
            let cut = viol.origin + viol.observed;
            let kept: Vec<SrcArrival> = best.arrivals.iter().filter(|a| a.t <= cut).cloned().collect();
            if kept.len() < best.arrivals.len() {
                tries += 1;
                let mut cand = best.clone();
                cand.arrivals = kept;
                if let Some((v, b)) = still_fails(&cand, key) {
                    best = cand;
                    viol = v;
                    bits = b;
                    progress = true;
                }
            }
        }
        // 3. drop blocks of arrivals, then single ones
        let mut block = (best.arrivals.len() / 2).max(1);
        while tries < budget {
            let mut start = 0;
            while start < best.arrivals.len() && tries < budget {
                let end = (start + block).min(best.arrivals.len());
                let mut cand = best.clone();
                cand.arrivals.drain(start..end);
                tries += 1;
                if let Some((v, b)) = still_fails(&cand, key) {
                    best = cand;
                    viol = v;
                    bits = b;
                    progress = true;
                } else {
                    start = end;
                }
            }
            if block == 1 {
                break;
            }
            block /= 2;
        }
    }
    // make the supply explicit
    {
        let mut cand = best.clone();
        cand.policy = SupPolicy::Script(bits.clone());
        cand.time_cap = cand.time_cap.min(bits.len() as u64 + 2);
        if let Some((v, _)) = still_fails(&cand, key) {
            best = cand;
            viol = v;
        }
    }
    (best, Some(viol))
}

// ---------------------------------------------------------------------------
// campaign

/// One mutation of an explicit run description that keeps it legal by construction: whole-stream
/// phase shifts, suffix delays (distances only grow), instance costs toggled between 1 and the
/// generated value, supply policy / phase tweaks.  `order[i]` maps the i-th arrival of the
/// candidate to its index in `allowed`.
fn mutate_scenario(
    sc: &RosScenario,
    allowed: &[Vec<u32>],
    order: &[usize],
    prep: &RosPrep,
    rng: &mut Rng,
) -> Option<(RosScenario, Vec<usize>)> {
    let mut out = sc.clone();
    let heads = sc.wl.heads();
    if sc.arrivals.is_empty() {
        return None;
    }
    let h = *rng.pick(&heads);
    let (_, _, p) = sc.wl.supply.qdp();
    match rng.below(8) {
        0 => {
            let dlt = rng.range(1, 4);
            for a in out.arrivals.iter_mut().filter(|a| a.head == h) {
                a.t += dlt;
            }
        }
        1 => {
            let first = out.arrivals.iter().filter(|a| a.head == h).map(|a| a.t).min()?;
            let dlt = rng.range(1, 4).min(first);
            if dlt == 0 {
                return None;
            }
            for a in out.arrivals.iter_mut().filter(|a| a.head == h) {
                a.t -= dlt;
            }
        }
        2 => {
            let idxs: Vec<usize> = (0..out.arrivals.len()).filter(|i| out.arrivals[*i].head == h).collect();
            if idxs.is_empty() {
                return None;
            }
            let from = out.arrivals[*rng.pick(&idxs)].t;
            let dlt = rng.range(1, 5);
            for a in out.arrivals.iter_mut().filter(|a| a.head == h && a.t >= from) {
                a.t += dlt;
            }
        }
        3 | 4 => {
            let i = rng.index(out.arrivals.len());
            let j = rng.index(out.arrivals[i].costs.len());
            let max = allowed[order[i]][j];
            out.arrivals[i].costs[j] = if out.arrivals[i].costs[j] == max { 1 } else { max };
        }
        5 => {
            out.policy = match &sc.policy {
                SupPolicy::EarlyThenLate { switch } => SupPolicy::EarlyThenLate {
                    switch: if rng.chance(1, 2) { switch + 1 } else { switch.saturating_sub(1) },
                },
                _ => match rng.below(4) {
                    0 => SupPolicy::AdaptiveWaste,
                    1 => SupPolicy::Late,
                    2 => SupPolicy::EarlyThenLate { switch: rng.range(0, 4) },
                    _ => SupPolicy::Early,
                },
            };
        }
        6 => {
            if p < 2 {
                return None;
            }
            out.phase = (sc.phase + rng.range(1, p - 1)) % p;
        }
        _ => {
            // align the first arrival of `h` with the first arrival of another stream
            let other = *rng.pick(&heads);
            let t_other = sc.arrivals.iter().filter(|a| a.head == other).map(|a| a.t).min()?;
            let t_mine = sc.arrivals.iter().filter(|a| a.head == h).map(|a| a.t).min()?;
            if t_other >= t_mine {
                let dlt = t_other - t_mine;
                for a in out.arrivals.iter_mut().filter(|a| a.head == h) {
                    a.t += dlt;
                }
            } else {
                let dlt = t_mine - t_other;
                for a in out.arrivals.iter_mut().filter(|a| a.head == h) {
                    a.t -= dlt;
                }
            }
        }
    }
    // re-sort, carrying the mapping to the allowed costs along
    let mut idx: Vec<usize> = (0..out.arrivals.len()).collect();
    idx.sort_by(|a, b| {
        (out.arrivals[*a].t, out.arrivals[*a].head, *a).cmp(&(out.arrivals[*b].t, out.arrivals[*b].head, *b))
    });
    let arrivals: Vec<SrcArrival> = idx.iter().map(|i| out.arrivals[*i].clone()).collect();
    let new_order: Vec<usize> = idx.iter().map(|i| order[*i]).collect();
    out.arrivals = arrivals;
    // cheap re-validation of the touched stream against the tabulated curve
    let times: Vec<u64> = out.arrivals.iter().filter(|a| a.head == h).map(|a| a.t).collect();
    if let Some(adm) = prep.adm[h].as_ref() {
        if times.last().copied().unwrap_or(0) + 2 > adm.scanned || adm.validate(&times).is_err() {
            return None;
        }
    }
    let total: u64 = out.arrivals.iter().map(|a| a.costs.iter().map(|x| *x as u64).sum::<u64>()).sum();
    let last = out.arrivals.last().map(|a| a.t).unwrap_or(0);
    let (q, _, pp) = sc.wl.supply.qdp();
    out.time_cap = (last + (total + 2) * pp / q + 6 * pp + 10).min(last + 4000);
    Some((out, new_order))
}

pub struct RosShared<'a> {
    pub climb_steps: u64,
    pub prop: &'static str,
    pub root: u64,
    pub analyses: &'a [Analysis],
    pub schedules: u64,
    pub fps: &'a Distinct,
    pub nontrivial: &'a Distinct,
    pub inputs: &'a Distinct,
}

fn sample_json(sc: &RosScenario, bounds: &Bounds, res: &ExecResult) -> Json {
    let mut j = Json::obj();
    j.set("analysis", Json::str(sc.which.name()));
    j.set("supply", Json::str(sc.wl.supply.to_string()));
    j.set("callbacks", Json::Arr(sc.wl.cbs.iter().map(|c| Json::str(c.to_string())).collect()));
    j.set("policy", Json::str(policy_text(&sc.policy)));
    j.set("phase", Json::Int(sc.phase as i128));
    j.set("arrivals", Json::Int(sc.arrivals.len() as i128));
    j.set(
        "first_arrivals",
        Json::Arr(sc.arrivals.iter().take(10).map(|a| Json::str(format!("cb{}@{}:{:?}", a.head, a.t, a.costs))).collect()),
    );
    j.set(
        "bounds",
        Json::Arr(bounds.outcomes.iter().map(|(e, o)| Json::str(format!("{}={:?}", e, o))).collect()),
    );
    j.set("max_response_per_callback", Json::Arr(res.max_resp.iter().map(|r| Json::Int(*r as i128)).collect()));
    j.set("first_supply_slots", Json::str(bits_text(&res.bits[..res.bits.len().min(80)])));
    j
}

pub fn ros_item(sh: &RosShared, k: u64, acc: &mut Acc, note: &dyn Fn(&str)) {
    let mut rng = Rng::new(Rng::run_seed(sh.root, sh.prop, k));
    let which = sh.analyses[(k % sh.analyses.len() as u64) as usize];
    let wl = gen_workload(&mut rng.split("input"), which);
    note(&format!(
        "{} input#{} {} supply={} limit={} cbs=[{}]",
        sh.prop,
        k,
        which.name(),
        wl.supply,
        wl.limit,
        wl.cbs.iter().map(|c| c.to_string()).collect::<Vec<_>>().join(" ; ")
    ));
    if let Err(e) = wl.well_formed() {
        eprintln!("HARNESS-ERROR: generated workload is not well-formed: {}", e);
        std::process::exit(2);
    }
    acc.counters.inc("inputs");
    match which {
        Analysis::EcrtsPp => acc.counters.inc("inputs.ecrts19_pp"),
        Analysis::EcrtsChain => acc.counters.inc("inputs.ecrts19_chain"),
        Analysis::Rr => acc.counters.inc("inputs.rr"),
        Analysis::Bw => acc.counters.inc("inputs.bw"),
    }
    if wl.cbs.iter().any(|cb| matches!(cb.cost, Some(CostDesc::Multiframe(_)))) {
        acc.counters.inc("inputs.with_multiframe_cost_model");
    }
    sh.inputs.insert(hash_str(&format!("{:?}/{}", wl, which.name())));
    let prep = match ros_prepare(&wl) {
        Some(p) => p,
        None => {
            acc.counters.inc("probe.model_panics");
            return;
        }
    };
    let loose = rng.split("blocking").chance(1, 4);
    let bounds = bounds_for(&wl, which, loose);
    let mut any = false;
    for (_, o) in &bounds.outcomes {
        match o {
            Outcome::Ok(_) => {
                acc.counters.inc("probe.analysis_ok");
                any = true;
            }
            Outcome::Err => acc.counters.inc("probe.analysis_err"),
            Outcome::Panic => acc.counters.inc("probe.analysis_panics"),
        }
    }
    if !any {
        acc.counters.inc("probe.input_without_claim");
        return;
    }
    if matches!(which, Analysis::Rr | Analysis::Bw) {
        acc.counters.inc("probe.self_consistent_vectors");
    }
    let heads = wl.heads();
    let n_struct = heads.len() as u64;
    let n_out = bounds.outcomes.len();
    let mut attained = vec![false; n_out];
    // evaluate one explicit scenario: run, account, report; returns per analysed entity the
    // objective of the guided search: largest observed response - bound
    let eval = |sc: &RosScenario, sidx: u64, acc: &mut Acc, attained: &mut Vec<bool>| -> Vec<i64> {
        let res = run_ros(sc, &bounds);
        if let Err(e) = supply_legal(&res.bits, &wl.supply, sc.phase) {
            eprintln!("HARNESS-ERROR: reservation stub left its model ({}): {}", wl.supply, e);
            std::process::exit(2);
        }
        acc.counters.inc("runs");
        acc.counters.add("sim_ticks", res.end_time);
        acc.counters.add("instances_simulated", sc.arrivals.len() as u64);
        let pr = &res.probes;
        acc.counters.add("probe.polling_points", pr.polling_points);
        acc.counters.add("probe.polling_point_empty_to_nonempty", pr.polling_points_nonempty);
        acc.counters.add("probe.timer_blocked_by_polled_callback", pr.timer_blocked_by_polled);
        acc.counters.add("probe.waited_across_2_polling_points", pr.waited_across_2_polling_points);
        acc.counters.add("fault.poll_missed_by_one_tick", pr.poll_missed_by_one_tick);
        acc.counters.add("probe.budget_gap_inside_callback", pr.budget_gap_inside_callback);
        acc.counters.add("probe.carry_in_instance_at_arrival", pr.carry_in_instance_at_arrival);
        acc.counters.add("fault.budget_early", res.server.early);
        acc.counters.add("fault.budget_late", res.server.late_forced);
        acc.counters.add("fault.budget_withheld_while_busy", res.server.withheld_while_busy);
        acc.counters.add("fault.budget_overprovisioned", res.server.overprovisioned);
        acc.counters.add("fault.budget_exhausted_mid_callback", res.server.exhausted_mid_callback);
        sh.fps.insert(res.fingerprint);
        acc.digest_add(res.fingerprint ^ res.max_resp.iter().fold(0u64, |a, r| a.wrapping_mul(31).wrapping_add(*r)));
        let mut nontrivial = false;
        let mut objective = vec![i64::MIN; n_out];
        for (oi, (e, o)) in bounds.outcomes.iter().enumerate() {
            if let Outcome::Ok(b) = o {
                let (obs, delayed) = match e {
                    Entity::Cb(i) => (res.max_resp[*i], res.delayed_by_other[*i]),
                    Entity::Chain(h) => {
                        let last = *wl.chain_of(*h).last().unwrap();
                        (res.max_chain_resp[last], res.delayed_by_other[last] || wl.chain_of(*h).len() > 1)
                    }
                };
                if delayed {
                    nontrivial = true;
                }
                objective[oi] = obs as i64 - *b as i64;
                if obs == *b {
                    acc.counters.inc("probe.bound_attained");
                    attained[oi] = true;
                }
            }
        }
        if nontrivial {
            acc.counters.inc("runs_nontrivial");
            sh.nontrivial.insert(res.fingerprint);
        }
        acc.sample((k, sidx), || sample_json(sc, &bounds, &res));
        if let Some(v) = &res.violation {
            for o in objective.iter_mut() {
                *o = (*o).max(1);
            }
            acc.report(Report {
                order: (k, sidx),
                key: ros_finding_key(sc, v),
                summary: ros_summary(sc, v),
                replay: ros_replay_text(sh.prop, sc, v, &format!("seed={} input={} schedule={}", sh.root, k, sidx)),
            });
        }
        objective
    };
    // random + structured schedules; the best one per analysed entity seeds the guided search
    let mut seeds: Vec<Option<(i64, RosScenario)>> = vec![None; n_out];
    for sidx in 0..(n_struct + sh.schedules) {
        let mut srng = rng.split(&format!("sched/{}", sidx));
        let structured = if sidx < n_struct { Some(heads[sidx as usize]) } else { None };
        let sc = gen_ros_schedule(&wl, &prep, which, loose, &mut srng, &mut acc.counters, structured);
        // generator self-check
        if let Err(e) = ros_scenario_legal(&sc, None) {
            // admissibility is checked against freshly tabulated curves there; a failure is ours
            eprintln!("HARNESS-ERROR: generated ROS scenario is not legal: {}", e);
            std::process::exit(2);
        }
        let obj = eval(&sc, sidx, acc, &mut attained);
        if sh.climb_steps > 0 {
            for oi in 0..n_out {
                if obj[oi] > i64::MIN && seeds[oi].as_ref().map(|s| obj[oi] > s.0).unwrap_or(true) {
                    seeds[oi] = Some((obj[oi], sc.clone()));
                }
            }
        }
    }
    // guided adversary: hill-climb on the explicit run description (section 3.5), one climb per
    // analysed entity whose bound was not attained by the schedules above
    let mut sidx = n_struct + sh.schedules;
    let targets: Vec<usize> = (0..n_out).filter(|oi| !attained[*oi] && seeds[*oi].is_some()).collect();
    let per_target = if targets.is_empty() {
        0
    } else {
        (2 * sh.climb_steps / targets.len() as u64).max(sh.climb_steps / 2)
    };
    for oi in targets {
        let (obj0, seed) = seeds[oi].take().unwrap();
        let mut crng = rng.split(&format!("climb/{}", oi));
        let mut cur = seed;
        let mut cur_obj = obj0;
        let allowed: Vec<Vec<u32>> = cur.arrivals.iter().map(|a| a.costs.clone()).collect();
        let mut order: Vec<usize> = (0..cur.arrivals.len()).collect();
        for _ in 0..per_target {
            if cur_obj >= 0 {
                break; // attained (or violated): nothing more to gain for this entity
            }
            let cand = match mutate_scenario(&cur, &allowed, &order, &prep, &mut crng) {
                Some(c) => c,
                None => continue,
            };
            acc.counters.inc("fault.guided_mutation_steps");
            let obj = eval(&cand.0, sidx, acc, &mut attained)[oi];
            sidx += 1;
            if obj >= cur_obj {
                if obj > cur_obj {
                    acc.counters.inc("probe.guided_search_improved");
                    if obj == 0 {
                        acc.counters.inc("probe.guided_search_attained_bound");
                    }
                }
                cur = cand.0;
                order = cand.1;
                cur_obj = obj;
            }
        }
    }
    for (oi, (_, o)) in bounds.outcomes.iter().enumerate() {
        if matches!(o, Outcome::Ok(_)) {
            acc.counters.inc("probe.analysed_entities");
            if attained[oi] {
                acc.counters.inc("probe.entities_bound_attained");
            }
        }
    }
}

pub fn run_ros_property(opt: &Options, prop: &'static str) -> i32 {
    let t0 = std::time::Instant::now();
    let analyses: &[Analysis] = if prop == "C04" {
        &[Analysis::EcrtsPp, Analysis::EcrtsChain]
    } else {
        &[Analysis::Rr, Analysis::Bw]
    };
    let (inputs, schedules, climb_steps) = if opt.thorough() {
        (opt.scaled(if prop == "C05" { 2_500_000 } else { 1_200_000 }), 50u64, 40u64)
    } else {
        (opt.scaled(if prop == "C05" { 240_000 } else { 100_000 }), 20u64, 10u64)
    };
    let fps = Distinct::new(30);
    let nontrivial = Distinct::new(30);
    let inputs_fp = Distinct::new(26);
    let sh = RosShared {
        climb_steps,
        prop,
        root: opt.seed,
        analyses,
        schedules,
        fps: &fps,
        nontrivial: &nontrivial,
        inputs: &inputs_fp,
    };
    let fin = |mut acc: Acc| -> i32 {
        let wall = t0.elapsed().as_secs_f64();
        let mut cov = Json::obj();
        cov.set("evaluations", Json::Int(acc.counters.get("runs") as i128));
        cov.set("distinct_nontrivial", Json::Int(nontrivial.count() as i128));
        cov.set(
            "rule",
            Json::str(
                "one evaluation = one simulated execution of the ROS 2 executor stub under the \
                 reservation stub: arrival times anywhere the library's curves allow, execution times \
                 in [1,WCET], budget placement chosen online by the adversary (early / late / \
                 early-then-late aligned with a burst / random / withheld while busy / \
                 over-provisioned), grid phase; every instance of every callback (chain: source \
                 arrival to completion of the last callback) is monitored against the bound the real \
                 analysis returned (C05: the self-consistent vector obtained by iterating the analysis \
                 from the WCETs). distinct = distinct fingerprints of the executor's decision / \
                 completion log; non-trivial = some monitored instance was delayed beyond its own \
                 execution",
            ),
        );
        cov.set("distinct_schedules", Json::Int(fps.count() as i128));
        cov.set("distinct_inputs", Json::Int(inputs_fp.count() as i128));
        cov.set("simulated_time_ticks", Json::Int(acc.counters.get("sim_ticks") as i128));
        cov.set(
            "components",
            components_json(
                &[
                    "ros2::{rta_event_source, rta_timer, rta_polling_point_callback, rta_processing_chain}, ros2::rr::rta_subchain, ros2::bw::rta_subchain, fixed_point::*, supply::{Dedicated, Periodic, Constrained}, demand::{RBF, Aggregate}, arrival::* (real, release profile, public API)",
                ],
                &[
                    "ROS 2 single-threaded executor (timers first, ready set refreshed only when empty, non-preemptive callbacks, KEEP_ALL queues) (stub, sim/src/ros.rs)",
                    "reservation server with online adversarial budget placement (stub, sim/src/ros.rs)",
                    "event sources, execution-time source (stubs, sim/src/release.rs, roscheck.rs)",
                ],
            ),
        );
        let prop_owned = prop.to_string();
        let out = finish(
            opt,
            &mut acc,
            wall,
            cov,
            &[
                "the executor stub implements the model the property states (DESIGN.md 3.4): timers evaluated with up-to-date information at every decision, polled callbacks only through the ready-set snapshot, decisions only in supplied slots, arrivals visible in the tick they occur, successors visible one tick after completion",
                "admissible arrival sequences are defined by the library's own number_arrivals",
                "the ROS 2 bounds are not tight: a change that stays above the true worst case of every sampled workload is invisible (DESIGN.md 3.5)",
            ],
            &|r: &Report| {
                let sc = match RosScenario::from_text(&r.replay) {
                    Ok(sc) => sc,
                    Err(e) => {
                        eprintln!("HARNESS-ERROR: own replay text does not parse: {}", e);
                        std::process::exit(2);
                    }
                };
                let (m, v) = minimise_ros(&sc, &r.key, 400);
                match v {
                    Some(v) => {
                        let note = r.replay.lines().find_map(|l| l.strip_prefix("note ")).unwrap_or("");
                        (
                            ros_replay_text(&prop_owned, &m, &v, &format!("{} (minimised from {} arrivals / {} callbacks)", note, sc.arrivals.len(), sc.wl.cbs.len())),
                            ros_summary(&m, &v),
                        )
                    }
                    None => (r.replay.clone(), r.summary.clone()),
                }
            },
        );
        out.exit_code
    };
    run_parallel_then(inputs, opt.jobs, 90, |k, acc, note| ros_item(&sh, k, acc, note), &fin)
}

pub fn replay_ros(path: &str, text: &str) -> i32 {
    let prop = text
        .lines()
        .find_map(|l| l.trim().strip_prefix("property ").map(|x| x.trim().to_string()))
        .unwrap_or_else(|| "C04".into());
    let sc = match RosScenario::from_text(text) {
        Ok(sc) => sc,
        Err(e) => {
            eprintln!("HARNESS-ERROR: cannot parse replay file: {}", e);
            return 2;
        }
    };
    match check_ros_scenario(&sc) {
        Err(e) => {
            eprintln!("HARNESS-ERROR: replay scenario is not legal: {}", e);
            2
        }
        Ok((None, _)) => {
            let b = bounds_for(&sc.wl, sc.which, sc.loose_blocking);
            println!("replay: no violation; bounds = {:?}", b.outcomes);
            0
        }
        Ok((Some(v), _)) => {
            println!("violation: {}", ros_summary(&sc, &v));
            println!(
                "observed entity={} origin={} bound={} observed={} completed={}",
                v.entity, v.origin, v.bound, v.observed, v.completed
            );
            println!("VIOLATION property={} replay={}", prop, path);
            1
        }
    }
}
