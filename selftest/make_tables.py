#!/usr/bin/env python3
"""Regenerates the result tables of DESIGN.md section 10 from selftest/mutants_result.json and
seeded/*/meta.json (between the BEGIN/END markers)."""
import json
import os
import re

VERIF = "/verif"


def mutant_table():
    path = os.path.join(VERIF, "selftest", "mutants_result.json")
    rows = json.load(open(path))
    out = ["| mutation | file | repository tests | caught by | not caught by | verdict |",
           "|----------|------|------------------|-----------|---------------|---------|"]
    for r in rows:
        if "kind" not in r:
            out.append("| %s | | | | | %s |" % (r["name"], r.get("status")))
            continue
        t = r.get("repo_tests", "")
        m = re.search(r"(\d+) passed; (\d+) failed", t)
        tests = ("pass" if m and m.group(2) == "0" else ("%s fail" % m.group(2) if m else "hang / n.a."))
        note = (" — " + r["note"]) if r.get("note") else ""
        out.append("| `%s`%s | %s | %s | %s | %s | %s |" % (
            r["name"], note, r["file"].replace("src/", ""), tests,
            " ".join(r.get("caught", [])) or "–", " ".join(r.get("silent", [])) or "–",
            r["status"] + ((" (" + "; ".join(r["harness_error"])[:60] + ")") if r.get("harness_error") else "")))
    unsafe = [r for r in rows if r.get("kind") == "unsafe"]
    caught = [r for r in unsafe if r["status"] == "CAUGHT"]
    ref = [r for r in rows if r.get("kind") == "refactor"]
    quiet = [r for r in ref if r["status"].startswith("SILENT")]
    head = ("%d property-breaking mutations, %d caught; %d semantics-preserving refactorings, %d silent. "
            "\"not caught by\" lists checks that were also run and stayed silent (for unsafe changes C18 is "
            "silent by design: it reports slack only; `witness_exceeds_bound` is counted instead).\n"
            % (len(unsafe), len(caught), len(ref), len(quiet)))
    return head + "\n" + "\n".join(out)


def seeded_table():
    root = os.path.join(VERIF, "seeded")
    out = ["| seeded change | property | what it breaks | needs to manifest | confirmed | detection |",
           "|---------------|----------|----------------|-------------------|-----------|-----------|"]
    for name in sorted(os.listdir(root)):
        mp = os.path.join(root, name, "meta.json")
        if not os.path.exists(mp):
            continue
        m = json.load(open(mp))
        det = "; ".join("%s: %s%s" % (k, v["verdict"], (" (replay reproduces on the patched tree, passes on the unchanged tree)" if v.get("replay_ok") else (" (REPLAY MISMATCH %s/%s)" % (v.get("replay_on_patched_tree_exit"), v.get("replay_on_unchanged_tree_exit")) if "replay_ok" in v else "")))
                        for k, v in sorted(m.get("detection", {}).items()))
        out.append("| `%s` | %s | %s | %s | %s | %s |" % (
            name, m.get("property"), m.get("breaks"), m.get("needs_to_manifest"),
            "yes" if m.get("verification", {}).get("confirmed") else "NO", det))
    return "\n".join(out)


def refactor_table():
    path = os.path.join(VERIF, "selftest", "refactorings_result.json")
    if not os.path.exists(path):
        return "(not run yet)"
    rows = json.load(open(path))
    out = ["| refactoring (sub-agent) | what it does | repository tests | all 11 checks |",
           "|-------------------------|--------------|------------------|---------------|"]
    for r in rows:
        md = os.path.join(VERIF, "selftest", "refactorings", r["name"].replace(".diff", ".md"))
        what = ""
        if os.path.exists(md):
            lines = [l.strip() for l in open(md).read().splitlines() if l.strip() and not l.startswith("#")]
            what = " ".join(lines)[:260].replace("|", "/")
        t = r.get("repo_tests", "")
        m = re.search(r"(\d+) passed; (\d+) failed", t)
        tests = ("pass" if m and m.group(2) == "0" else t[:30])
        out.append("| `%s` | %s | %s | %s |" % (r["name"], what, tests,
                   r.get("status", "") + ("" if not r.get("alarms") else " " + "; ".join(r["alarms"])[:200])))
    return "\n".join(out)


def refix_table():
    path = os.path.join(VERIF, "selftest", "refix_result.json")
    if not os.path.exists(path):
        return "(not run yet)"
    rows = json.load(open(path))
    out = ["| fix reverted in the working tree | checks (exit code) | fixtures (exit code) |",
           "|----------------------------------|--------------------|----------------------|"]
    for r in rows:
        out.append("| %s | %s | %s |" % (r["reverted_fix"],
                   ", ".join("%s: %d" % kv for kv in r["checks"].items()),
                   ", ".join("%s: %d" % kv for kv in r["fixtures"].items())))
    return "\n".join(out)


def main():
    p = os.path.join(VERIF, "DESIGN.md")
    s = open(p).read()
    for tag, fn in (("MUTANTS", mutant_table), ("SEEDED", seeded_table), ("REFACTOR", refactor_table), ("REFIX", refix_table)):
        begin, end = "<!-- %s:BEGIN -->" % tag, "<!-- %s:END -->" % tag
        block = begin + "\n" + fn() + "\n" + end
        ph = {"MUTANTS": "MUTANT_TABLE_PLACEHOLDER", "SEEDED": "SEEDED_TABLE_PLACEHOLDER",
              "REFACTOR": "REFACTOR_TABLE_PLACEHOLDER", "REFIX": "REFIX_TABLE_PLACEHOLDER"}[tag]
        if ph in s:
            s = s.replace(ph, block)
        else:
            a, b = s.index(begin), s.index(end) + len(end)
            s = s[:a] + block + s[b:]
    open(p, "w").write(s)


if __name__ == "__main__":
    main()
