#!/usr/bin/env python3
"""No-alarm sweep: every claimed check, many VERIF_SEED values, on the unchanged tree.
Any exit code other than 0 is printed (a check that alarms on the unchanged tree is broken).

usage: seedsweep.py [--from A] [--to B] [--scale PCT] [--tier quick|thorough] [--props ...]
Runs the rtasim binary next to this script's /verif (../sim/target/release/rtasim).
"""
import os
import subprocess
import sys
import tempfile
import time

HERE = os.path.dirname(os.path.abspath(__file__))
VERIF = os.path.dirname(HERE)
BIN = os.path.join(VERIF, "sim", "target", "release", "rtasim")
PROPS = ["C01", "C02", "C03", "C04", "C05", "C09", "C10", "C12", "C13", "C14", "C18"]


def main():
    lo, hi, scale, tier, props = 2, 21, 100, "quick", PROPS
    args = sys.argv[1:]
    while args:
        a = args.pop(0)
        if a == "--from":
            lo = int(args.pop(0))
        elif a == "--to":
            hi = int(args.pop(0))
        elif a == "--scale":
            scale = int(args.pop(0))
        elif a == "--tier":
            tier = args.pop(0)
        elif a == "--props":
            props = args.pop(0).split(",")
    bad = 0
    t0 = time.time()
    with tempfile.TemporaryDirectory(prefix="rtasim-sweep-") as tmp:
        for seed in range(lo, hi + 1):
            for prop in props:
                t1 = time.time()
                p = subprocess.run(
                    [BIN, "check", prop, "--seed", str(seed), "--tier", tier, "--scale", str(scale),
                     "--evidence", os.path.join(tmp, "ev.json"), "--replay-dir", os.path.join(VERIF, "replays"),
                     "--known", os.path.join(VERIF, "known_findings.txt")],
                    stdout=subprocess.PIPE, stderr=subprocess.STDOUT, text=True)
                if tier == "thorough":
                    print("%s seed=%d %s rc=%d %.0fs" % (prop, seed, tier, p.returncode, time.time() - t1))
                    sys.stdout.flush()
                if p.returncode != 0:
                    bad += 1
                    print("ALARM %s seed=%d rc=%d" % (prop, seed, p.returncode))
                    print("\n".join(l for l in p.stdout.splitlines() if "VIOLATION" in l or "violation" in l or "HARNESS" in l))
                    sys.stdout.flush()
            print("seed %d done (%.0fs)" % (seed, time.time() - t0))
            sys.stdout.flush()
    print("alarms=%d" % bad)
    return 1 if bad else 0


if __name__ == "__main__":
    sys.exit(main())
