#!/usr/bin/env python3
"""Sensitivity proof (DESIGN.md 2.7): deliberate, compiling changes of
brandenburg/response-time-analysis-rs are applied one at a time to /repo's working tree, the
repository's own test suite and the relevant checks are run, and the change is undone
(git checkout) straight afterwards.  Nothing is ever committed to /repo by this script.

usage: mutants.py [--only NAME[,NAME]] [--scale PCT] [--list] [--skip-tests]

Result table: /verif/selftest/mutants_result.json
"""
import hashlib
import json
import os
import subprocess
import sys
import time

REPO = "/repo"
VERIF = "/verif"
CACHE = "/verif/selftest/mutants_tests_cache.json"

# (name, file, old, new, checks expected to catch it (any of), kind)
# kind: "unsafe" = breaks a property; "refactor" = semantics preserving, every check must stay silent
M = []


def m(name, file, old, new, checks, kind="unsafe", note=""):
    M.append(dict(name=name, file=file, old=old, new=new, checks=checks, kind=kind, note=note))


m("brute_force_steps_iter_off_by_one", "src/arrival/mod.rs",
  ".map(|((_, _), (d2, _))| Duration::from(d2)),",
  ".map(|((d1, _), (_, _))| Duration::from(d1)),",
  ["C03", "C01", "C12"], note="the default steps_iter reports every step one tick early (only user-defined models and ApproximatedPoisson use it)")
m("rbf_job_cost_iter_one_fewer", "src/demand/rbf.rs",
  "                .take(self.arrival_bound.number_arrivals(delta)),",
  "                .take(self.arrival_bound.number_arrivals(delta).saturating_sub((delta > Duration::from(40)) as usize)),",
  ["C01", "C02", "C03"], note="RBF::job_cost_iter drops one job for long intervals: only visible through the RequestBound trait's default service_needed (user-defined wrappers) or service_needed_by_n_jobs")
m("request_bound_default_service_needed_skips_first", "src/demand/mod.rs",
  "        self.job_cost_iter(delta).sum()",
  "        self.job_cost_iter(delta).skip((delta > Duration::from(25)) as usize).sum()",
  ["C01", "C02", "C03"], note="the trait's DEFAULT service_needed (not used by any library implementor's hot path) loses a job for long intervals")
m("job_cost_model_default_least_wcet_one_short", "src/wcet/mod.rs",
  "        self.job_cost_iter()\n            .take(n)\n            .min()",
  "        self.job_cost_iter()\n            .take(n.saturating_sub((n > 3) as usize))\n            .min()",
  ["C14"], note="the trait's DEFAULT least_wcet (every library model overrides it) ignores the n-th job")
# ---- fixed-priority / FIFO / fixed point ---------------------------------------------------
m("fp_p_tua_demand_open_interval", "src/fixed_priority/fully_preemptive.rs",
  "let tua_demand = tua.service_needed(A.closed_since_time_zero());",
  "let tua_demand = tua.service_needed(A.since_time_zero().max(Duration::epsilon()));",
  ["C01", "C18"], note="A+1 -> A in the task's own demand")
m("fp_np_rem_cost_dropped_one", "src/fixed_priority/fully_nonpreemptive.rs",
  "Ok(F + Duration::from(rem_cost))",
  "Ok(F + Duration::from(rem_cost).saturating_sub(Duration::epsilon()))",
  ["C01", "C18"], note="remaining cost after the run-to-completion threshold off by one")
m("fp_lp_rtct_ignores_last_segment", "src/fixed_priority/limited_preemptive.rs",
  "let rtct = tua.wcet.wcet - (tua.last_np_segment - Service::epsilon());",
  "let rtct = Service::epsilon() + Service::none() * (tua.last_np_segment - Service::epsilon()).into();",
  ["C01"], note="limited-preemptive treated like fully non-preemptive (rtct = epsilon)")
m("fp_fl_blocking_dropped", "src/fixed_priority/floating_nonpreemptive.rs",
  "            tua.blocking_bound + tua_demand + interfering_demand\n        };",
  "            tua_demand + interfering_demand\n        };",
  ["C01"], note="blocking ignored in the per-offset equation (kept in the busy window)")
m("fp_p_search_space_cut_short", "src/fixed_priority/fully_preemptive.rs",
  "let search_space = demand::step_offsets(tua).take_while(|A| *A < max_offset);",
  "let search_space = demand::step_offsets(tua).take_while(|A| *A + Duration::from(2) < max_offset);",
  ["C01", "C18"], note="offsets just below L are not examined")
m("fifo_open_interval", "src/fifo/rta.rs",
  "let total_service = tasks_rbf.service_needed(A.closed_since_time_zero());",
  "let total_service = tasks_rbf.service_needed(A.since_time_zero().max(Duration::epsilon()));",
  ["C03", "C18"])
m("fixed_point_accepts_one_tick_early", "src/fixed_point.rs",
  "if response_time_bound <= assumed_response_time {",
  "if response_time_bound <= assumed_response_time + Duration::epsilon() {",
  ["C01", "C02", "C04", "C05", "C18"], note="search_with_offset converges one tick early (returns the not-yet-met bound)")
m("fixed_point_returns_assumed", "src/fixed_point.rs",
  "            // we have converged\n            return Ok(response_time_bound);",
  "            // we have converged\n            return Ok(assumed_response_time);",
  ["C18", "C04"], note="returns the assumed value instead of the (smaller or equal) bound: pessimistic")
m("max_response_time_returns_last", "src/fixed_point.rs",
  "    rta_per_offset\n        .max_by(|a, b| {",
  "    rta_per_offset\n        .map(|x| x).last().into_iter()\n        .max_by(|a, b| {",
  ["C01", "C02", "C04", "C18"], note="last offset's result instead of the maximum")
m("fp_p_pessimistic_plus_one", "src/fixed_priority/fully_preemptive.rs",
  "        let F = AF - A.since_time_zero();\n        Ok(F)",
  "        let F = AF - A.since_time_zero();\n        Ok(F + Duration::epsilon())",
  ["C18"], note="safe but pessimistic: only tightness can see it")
m("fifo_pessimistic_window", "src/fifo/rta.rs",
  "Duration::from(total_service) - A.since_time_zero()",
  "Duration::from(tasks_rbf.service_needed(A.closed_since_time_zero() + Duration::epsilon())) - A.since_time_zero()",
  ["C18"], note="window widened by one: safe, pessimistic")

# ---- EDF -----------------------------------------------------------------------------------
m("edf_p_deadline_shift_open", "src/edf/fully_preemptive.rs",
  "(A.closed_since_time_zero() + tua.deadline).saturating_sub(ot.deadline),",
  "(A.since_time_zero() + tua.deadline).saturating_sub(ot.deadline),",
  ["C02"], note="A+1+D-D_o -> A+D-D_o")
m("edf_np_blocking_filter_flipped", "src/edf/fully_nonpreemptive.rs",
  "ot.deadline > tua.deadline + A.since_time_zero()",
  "ot.deadline < tua.deadline + A.since_time_zero()",
  ["C02"], note="blocking considered only from tasks with *shorter* deadlines")
m("edf_p_tua_steps_dropped", "src/edf/fully_preemptive.rs",
  "        .kmerge()\n        .merge(search_space_tua)\n        .dedup();",
  "        .kmerge()\n        .merge(search_space_tua.take(1))\n        .dedup();",
  ["C02"], note="only A=0 of the task's own steps is examined")
m("edf_fl_shifted_steps_dropped", "src/edf/floating_nonpreemptive.rs",
  "                .take_while(|A| *A < max_offset)\n        })\n        .kmerge()",
  "                .take_while(|A| *A < max_offset)\n                .take(0)\n        })\n        .kmerge()",
  ["C02"], note="deadline-shifted steps of other tasks not examined")
m("edf_lp_shift_sign", "src/edf/limited_preemptive.rs",
  "                        (delta + ot.deadline)\n                            .since_time_zero()\n                            .saturating_sub(tua.deadline),",
  "                        (delta + tua.deadline)\n                            .since_time_zero()\n                            .saturating_sub(ot.deadline),",
  ["C02"], note="search-space shift D_o - D applied with the wrong sign")

# ---- ROS 2 ---------------------------------------------------------------------------------
m("ecrts_timer_interval_without_epsilon", "src/ros2/ecrts19.rs",
  """        let interference_interval = if response > own_wcet {
            prefix + response - own_wcet + Duration::epsilon()
        } else {
            prefix + Duration::epsilon()
        };
        own_demand.service_needed(prefix + Duration::epsilon())
            + interfering_demand.service_needed(interference_interval)
            + blocking_bound""",
  """        let interference_interval = if response > own_wcet {
            prefix + response - own_wcet
        } else {
            prefix + Duration::epsilon()
        };
        own_demand.service_needed(prefix + Duration::epsilon())
            + interfering_demand.service_needed(interference_interval)
            + blocking_bound""",
  ["C04"])
m("ecrts_chain_self_interference_dropped", "src/ros2/ecrts19.rs",
  "own_demand + self_interference + other_demand",
  "own_demand + other_demand + self_interference * 0",
  ["C04"], note="chain prefix not counted in Lemma 8")
m("ecrts_offsets_exclusive", "src/ros2/ecrts19.rs",
  ".take_while(|x| *x <= Offset::from_time_zero(max_bw));",
  ".take_while(|x| *x + Duration::from(3) <= Offset::from_time_zero(max_bw));",
  ["C04"], note="late offsets dropped")
m("ecrts_pp_own_demand_open", "src/ros2/ecrts19.rs",
  """        own_demand.service_needed(prefix + Duration::epsilon())
            + interfering_demand.service_needed(interference_interval)
    };""",
  """        own_demand.service_needed(prefix.max(Duration::epsilon()))
            + interfering_demand.service_needed(interference_interval)
    };""",
  ["C04"], note="own demand over [0, A) instead of [0, A]")
m("rr_unknown_prio_pp_instead_of_pp_plus_1", "src/ros2/rr.rs",
  "CallbackType::PolledUnknownPrio => arrived.min(num_polling_points + 1),",
  "CallbackType::PolledUnknownPrio => arrived.min(num_polling_points),",
  ["C05"])
m("rr_priority_indicator_inverted", "src/ros2/rr.rs",
  "+ is_higher_callback_priority_than(inf_prio, ref_prio) as usize,\n                ),\n                _ => arrived.min(num_polling_points + 1),",
  "+ is_higher_callback_priority_than(ref_prio, inf_prio) as usize,\n                ),\n                _ => arrived.min(num_polling_points + 1),",
  ["C05"])
m("rr_carry_in_extension_dropped", "src/ros2/rr.rs",
  """    ) -> Service {
        let effective_interval = (delta + self.response_time_bound).saturating_sub(EPSILON);""",
  """    ) -> Service {
        let effective_interval = delta;""",
  ["C05"], note="R-extended arrival window dropped from the direct interference")
m("rr_marginal_cost_dropped", "src/ros2/rr.rs",
  "let rhs_R_star = supply_star.saturating_sub(EPSILON_SERVICE) + omega;",
  "let rhs_R_star = supply_star.saturating_sub(EPSILON_SERVICE) + omega.min(EPSILON_SERVICE);",
  ["C05"], note="only one unit of the own execution cost accounted for")
m("bw_arrived_bw_without_polling_points", "src/ros2/bw.rs",
  "            .number_arrivals(activation_time.since_time_zero())\n            + num_polling_points;",
  "            .number_arrivals(activation_time.since_time_zero());",
  ["C05"])
m("bw_self_interference_open_interval", "src/ros2/bw.rs",
  "            .number_arrivals(activation.closed_since_time_zero())\n            .saturating_sub(1)",
  "            .number_arrivals(activation.since_time_zero())\n            .saturating_sub(1)",
  ["C05"], note="own earlier instances arriving exactly at the activation instant ignored")
m("bw_timer_interference_capped", "src/ros2/bw.rs",
  "CallbackType::Timer | CallbackType::EventSource => arrived,\n            CallbackType::PolledUnknownPrio => arrived.min(arrived_bw + 1),",
  "CallbackType::Timer | CallbackType::EventSource => arrived.min(arrived_bw + 1),\n            CallbackType::PolledUnknownPrio => arrived.min(arrived_bw + 1),",
  ["C05"], note="timers treated as if bounded by polling points")

m("ecrts_own_wcet_uses_largest_job", "src/ros2/ecrts19.rs",
  """        // cost of pp-based callback under analysis
        let own_wcet = Duration::from(own_demand.least_wcet_in_interval(prefix + response));""",
  """        // cost of pp-based callback under analysis
        let own_wcet = Duration::from(own_demand.service_needed(Duration::epsilon()));""",
  ["C04"], note="own WCET taken as the largest job cost instead of the least: invisible with scalar costs")
m("rr_marginal_cost_least_wcet", "src/ros2/rr.rs",
  "        let n = self.max_self_interfering_instances(delta);\n        self.cost_model.cost_of_jobs(n + 1) - self.cost_model.cost_of_jobs(n)",
  "        let n = self.max_self_interfering_instances(delta);\n        self.cost_model.least_wcet(n + 1)",
  ["C05"], note="marginal cost replaced by the least WCET: invisible with scalar costs")
m("bw_marginal_cost_least_wcet", "src/ros2/bw.rs",
  "        let n = self.max_self_interfering_instances(activation);\n        self.cost_model.cost_of_jobs(n + 1) - self.cost_model.cost_of_jobs(n)",
  "        let n = self.max_self_interfering_instances(activation);\n        self.cost_model.least_wcet(n + 1)",
  ["C05"], note="marginal cost replaced by the least WCET: invisible with scalar costs")

# ---- supply --------------------------------------------------------------------------------
m("periodic_sbf_slack_once", "src/supply/periodic.rs",
  "let x = slack + slack + self.period * full_periods;",
  "let x = slack + self.period * full_periods;",
  ["C09", "C04"])
m("constrained_sbf_ignores_deadline", "src/supply/constrained.rs",
  "let x = shift + self.period * full_periods + self.deadline - budget;",
  "let x = shift + self.period * full_periods + self.period - budget;",
  ["C09"], note="degenerates to the periodic SBF: sound but not exact")
m("periodic_service_time_off_by_one", "src/supply/periodic.rs",
  "        slack + self.period * full_periods + fractional_budget\n    }",
  "        (slack + self.period * full_periods + fractional_budget).saturating_sub(Duration::epsilon())\n    }",
  ["C09", "C04"])
m("constrained_service_time_uses_period", "src/supply/constrained.rs",
  "self.deadline - budget + self.period * full_periods + fractional_budget",
  "self.period - budget + self.period * full_periods + fractional_budget",
  ["C09"], note="inverse of the periodic model: pessimistic for D < P")
m("default_service_time_overshoots", "src/supply/mod.rs",
  "t += Duration::from(demand - supply);",
  "t += Duration::from(demand - supply) + Duration::epsilon();",
  ["C09"], note="default inverse jumps one too far: not the smallest t")
m("default_service_time_stops_early", "src/supply/mod.rs",
  "            if supply >= demand {\n                return t;",
  "            if supply + Service::epsilon() >= demand {\n                return t;",
  ["C09"], note="default inverse accepts one unit too little")

# ---- arrival models ------------------------------------------------------------------------
m("sporadic_jitter_floor", "src/arrival/sporadic.rs",
  "divide_with_ceil(delta + self.jitter, self.min_inter_arrival) as usize",
  "((delta + self.jitter) / self.min_inter_arrival) as usize + (self.jitter.is_zero() && (delta % self.min_inter_arrival).is_non_zero()) as usize",
  ["C10"], note="with jitter, floor instead of ceil")
m("sporadic_extra_job_at_boundary", "src/arrival/sporadic.rs",
  "divide_with_ceil(delta + self.jitter, self.min_inter_arrival) as usize",
  "((delta + self.jitter) / self.min_inter_arrival) as usize + 1",
  ["C18", "C10"], note="one extra job when delta + jitter is an exact multiple of the period: safe, not attained")
m("curve_lookup_off_by_one", "src/arrival/curve.rs",
  "            if delta <= *distance_of_njobs {\n                return njobs - 1;",
  "            if delta <= *distance_of_njobs + Duration::epsilon() {\n                return njobs - 1;",
  ["C10", "C12", "C13"])
m("propagated_shift_dropped_above_threshold", "src/arrival/propagated.rs",
  "                .number_arrivals(delta + self.response_time_jitter)",
  "                .number_arrivals(delta + self.response_time_jitter.min(Duration::from(7)))",
  ["C10"], note="jitter above 7 ignored")
m("vec_sum_skips_last_when_three", "src/arrival/aggregated.rs",
  "impl<T: ArrivalBound> ArrivalBound for Vec<T> {\n    fn number_arrivals(&self, delta: Duration) -> usize {\n        self.iter().map(|ab| ab.number_arrivals(delta)).sum()",
  "impl<T: ArrivalBound> ArrivalBound for Vec<T> {\n    fn number_arrivals(&self, delta: Duration) -> usize {\n        self.iter().map(|ab| ab.number_arrivals(delta)).max().unwrap_or(0).max(self.iter().take(1).map(|ab| ab.number_arrivals(delta)).sum())",
  ["C10"], note="superposition bounded by the largest component")
m("nested_jitter_not_additive", "src/arrival/propagated.rs",
  "response_time_jitter: self.response_time_jitter + added_jitter,",
  "response_time_jitter: self.response_time_jitter.max(added_jitter),",
  ["C10", "C13"], note="jitter a then b gives max(a, b)")
m("arrival_from_trace_window_short", "src/arrival/curve.rs",
  "            if window.len() > prefix_jobs {\n                window.pop_front();",
  "            if window.len() + 1 > prefix_jobs {\n                window.pop_front();",
  ["C12"], note="sliding window one too short: harmless by itself? (vector one entry shorter)")
m("arrival_from_trace_keeps_first_gap", "src/arrival/curve.rs",
  "                    d[i] = d[i].min(observed_gap)",
  "                    d[i] = if i == 0 { d[i].min(observed_gap) } else { d[i].min(observed_gap.max(d[i - 1] + Duration::epsilon())) }",
  ["C12"], note="forces strictly increasing distances: undercounts bursts")
m("from_arrival_bound_until_takes_one_less", "src/arrival/curve.rs",
  ".take_while(|(count, (_njobs, delta))| *delta <= horizon || *count < 2)",
  ".take_while(|(count, (_njobs, delta))| *delta + Duration::from(3) <= horizon || *count < 2)",
  ["C12"], kind="refactor", note="shorter prefix: still a valid derived curve (covered prefix shrinks with it)")
m("curve_from_sporadic_ignores_jitter", "src/arrival/curve.rs",
  "        Curve::from_arrival_bound(&s, n)\n    }",
  "        Curve::from_arrival_bound(&Sporadic::new_zero_jitter(s.min_inter_arrival), n)\n    }",
  ["C12"])
m("delta_min_iter_off_by_one", "src/arrival/dmin.rs",
  "let dmin = Some((self.next_count, delta - Duration::from(1)));",
  "let dmin = Some((self.next_count, delta));",
  ["C12"])
m("prefix_number_arrivals_no_repetition", "src/arrival/arrival_curve_prefix.rs",
  "self.max_njobs_in_horizon() * (full_horizons as usize) + self.lookup(partial_horizon)",
  "self.max_njobs_in_horizon() * ((full_horizons as usize).min(2)) + self.lookup(partial_horizon)",
  ["C10", "C12"], note="beyond two horizons the count stops growing")

# ---- extrapolation -------------------------------------------------------------------------
m("extrapolate_next_min_instead_of_max", "src/arrival/curve.rs",
  "            .map(|k| self.min_distance[k] + self.min_distance[n - k - 1])\n            .max()",
  "            .map(|k| self.min_distance[k] + self.min_distance[n - k - 1])\n            .min()",
  ["C13"], note="not the tightest extension: cache answers differ from the closure")
m("extrapolate_next_index_shift", "src/arrival/curve.rs",
  "            .map(|k| self.min_distance[k] + self.min_distance[n - k - 1])\n            .max()",
  "            .map(|k| self.min_distance[k] + self.min_distance[n - k - 1] + Duration::from((k == 1) as u64))\n            .max()",
  ["C13"], note="one split over-estimates the distance: undercounts")
m("extrapolating_curve_horizon_delta", "src/arrival/curve.rs",
  "curve.extrapolate(delta + Duration::from(1));",
  "curve.extrapolate(delta);",
  ["C13"], note="extrapolates to delta instead of delta+1: answer depends on the cache state")
m("extrapolating_curve_leaks_borrow", "src/arrival/curve.rs",
  "        let prefix = self.prefix.borrow();\n        if prefix.can_extrapolate() {",
  "        let prefix = self.prefix.borrow();\n        if prefix.min_distance(2) == Duration::from(13) { std::mem::forget(self.prefix.borrow()); }\n        if prefix.can_extrapolate() {",
  ["C13"], note="a shared borrow stays alive (for one particular first distance): later queries panic")
m("extrapolate_with_bound_ignores_closure", "src/arrival/curve.rs",
  "self.min_distance.push(dmin.max(extrapolated))",
  "self.min_distance.push(dmin.max(extrapolated.min(dmin)))",
  ["C13"], kind="refactor", note="takes the caller's bound as is; weaker but still a bound of the constrained process; may loosen -> see result")

# ---- wcet ----------------------------------------------------------------------------------
m("wcet_extrapolate_next_max", "src/wcet/curve.rs",
  "            .map(|k| self.wcet_of_n_jobs[k] + self.wcet_of_n_jobs[n - k - 1])\n            .min()",
  "            .map(|k| self.wcet_of_n_jobs[k] + self.wcet_of_n_jobs[n - k - 1])\n            .max()",
  ["C14"])
m("wcet_cache_extrapolates_one_short", "src/wcet/curve.rs",
  "costfn.extrapolate(n + 1);",
  "costfn.extrapolate(n);",
  ["C14"])
m("wcet_from_trace_window_short", "src/wcet/curve.rs",
  "            if window.len() > max_n {\n                window.pop_front();",
  "            if window.len() + 1 > max_n && window.len() > 1 {\n                window.pop_front();",
  ["C14"], note="prefix one shorter than requested; still dominates? (see result)")
m("wcet_curve_repetition_uses_first", "src/wcet/curve.rs",
  "self.wcet_of_n_jobs[self.wcet_of_n_jobs.len() - 1] * x as u64",
  "self.wcet_of_n_jobs[self.wcet_of_n_jobs.len() - 1] * (x as u64).min(3)",
  ["C14"], note="beyond three prefixes the cost stops growing")
m("multiframe_least_wcet_all_frames", "src/wcet/multiframe.rs",
  "            .take(n)\n            .copied()\n            .min()",
  "            .skip(n.min(1) - n.min(1))\n            .take(n)\n            .copied()\n            .max()",
  ["C14"], note="least_wcet returns the largest of the first n frames")
m("multiframe_least_wcet_nth_frame", "src/wcet/multiframe.rs",
  "            .take(n)\n            .copied()\n            .min()",
  "            .skip(n.saturating_sub(1))\n            .take(1)\n            .copied()\n            .min()",
  ["C04", "C14"], note="Multiframe::least_wcet returns the n-th frame instead of the cheapest of the first n (too large after a cheap frame): the ECRTS'19 interference window A + R - own_wcet + 1 shrinks; needs Multiframe cost models in the ROS 2 workloads (added in seeding round 11)")

# ---- semantics-preserving refactorings: every check must stay silent -------------------------
m("refactor_fp_all_offsets", "src/fixed_priority/fully_preemptive.rs",
  "let search_space = demand::step_offsets(tua).take_while(|A| *A < max_offset);",
  "let search_space = (0u64..).map(Offset::from).take_while(|A| *A < max_offset);",
  ["C01", "C18"], kind="refactor", note="search space enlarged to every offset below L")
m("refactor_lookup_binary_search", "src/arrival/curve.rs",
  """        for (i, distance_of_njobs) in self.min_distance.iter().enumerate() {
            let njobs = i + 2; // we do not store n=0 and n=1
            if delta <= *distance_of_njobs {
                return njobs - 1;
            }
        }
        // should never get here
        panic!()""",
  """        let i = self.min_distance.partition_point(|x| *x < delta);
        if i < self.min_distance.len() {
            return i + 1;
        }
        // should never get here
        panic!()""",
  ["C01", "C10", "C12", "C13"], kind="refactor")
m("refactor_periodic_sbf_rewritten", "src/supply/periodic.rs",
  """        let fractional_period = if x < delta {
            Service::from(delta - x)
        } else {
            Service::none()
        };""",
  """        let fractional_period = Service::from(delta.saturating_sub(x));""",
  ["C09", "C04"], kind="refactor")
m("refactor_sporadic_ceil", "src/arrival/sporadic.rs",
  "divide_with_ceil(delta + self.jitter, self.min_inter_arrival) as usize",
  "((u64::from(delta + self.jitter) + u64::from(self.min_inter_arrival) - 1) / u64::from(self.min_inter_arrival)) as usize",
  ["C10", "C01"], kind="refactor")
m("refactor_rr_direct_rbf_reordered", "src/ros2/rr.rs",
  "CallbackType::PolledUnknownPrio => arrived.min(num_polling_points + 1),",
  "CallbackType::PolledUnknownPrio => std::cmp::min(num_polling_points + 1, arrived),",
  ["C05"], kind="refactor")


def sh(cmd, cwd=None, timeout=3600):
    return subprocess.run(cmd, cwd=cwd, shell=True, stdout=subprocess.PIPE, stderr=subprocess.STDOUT,
                          text=True, timeout=timeout)


def restore():
    sh("git checkout -- .", cwd=REPO)
    st = sh("git status --porcelain", cwd=REPO).stdout.strip()
    if st:
        raise SystemExit("could not restore /repo: " + st)


def main():
    only, scale, skip_tests = None, "100", False
    args = sys.argv[1:]
    while args:
        a = args.pop(0)
        if a == "--only":
            only = set(args.pop(0).split(","))
        elif a == "--scale":
            scale = args.pop(0)
        elif a == "--skip-tests":
            skip_tests = True
        elif a == "--list":
            for x in M:
                print(x["name"], x["kind"], x["checks"])
            return 0
    if sh("git status --porcelain", cwd=REPO).stdout.strip():
        raise SystemExit("/repo has uncommitted changes; refusing to run")
    results = []
    tests_cache = json.load(open(CACHE)) if os.path.exists(CACHE) else {}
    env_prefix = "VERIF_SCALE=%s " % scale
    try:
        for x in M:
            if only and x["name"] not in only:
                continue
            path = os.path.join(REPO, x["file"])
            src = open(path).read()
            if src.count(x["old"]) != 1:
                results.append(dict(name=x["name"], status="PATTERN-NOT-FOUND (%d matches)" % src.count(x["old"])))
                print(results[-1])
                continue
            open(path, "w").write(src.replace(x["old"], x["new"]))
            t0 = time.time()
            entry = dict(name=x["name"], kind=x["kind"], file=x["file"], note=x["note"], expected=x["checks"])
            try:
                key = hashlib.sha1((x["file"] + "\0" + x["old"] + "\0" + x["new"]).encode()).hexdigest()
                if key in tests_cache:
                    entry["repo_tests"] = tests_cache[key]
                elif not skip_tests:
                    t = sh("timeout 240 cargo test --offline 2>&1 | grep -E '^test result' | head -1", cwd=REPO)
                    entry["repo_tests"] = t.stdout.strip() or "tests did not finish within 240 s (hang) or did not build"
                    tests_cache[key] = entry["repo_tests"]
                    with open(CACHE, "w") as f:
                        json.dump(tests_cache, f, indent=1)
                caught, silent, err = [], [], []
                for c in x["checks"]:
                    r = sh(env_prefix + "./check %s quick" % c, cwd=VERIF)
                    if r.returncode == 1:
                        caught.append(c)
                    elif r.returncode == 0:
                        silent.append(c)
                    else:
                        err.append(c + ": " + " | ".join(l for l in r.stdout.splitlines() if "HARNESS" in l or "error" in l)[:300])
                entry.update(caught=caught, silent=silent, harness_error=err, seconds=round(time.time() - t0, 1))
                if x["kind"] == "unsafe":
                    entry["status"] = "CAUGHT" if caught else ("BUILD/HARNESS-ERROR" if err else "MISSED")
                else:
                    entry["status"] = "SILENT (ok)" if not caught and not err else "ALARM-ON-REFACTORING"
            finally:
                restore()
            results.append(entry)
            print(json.dumps(entry))
            sys.stdout.flush()
    finally:
        restore()
        sh("./check build", cwd=VERIF)
        # the evidence files were rewritten by runs against mutated trees: put the committed ones back
        sh("git checkout -- evidence", cwd=VERIF)
    out = os.path.join(VERIF, "selftest", "mutants_result.json")
    if not only:
        with open(out, "w") as f:
            json.dump(results, f, indent=1)
    n_unsafe = [r for r in results if r.get("kind") == "unsafe"]
    print("unsafe mutants: %d, caught: %d, missed: %s" % (
        len(n_unsafe), sum(1 for r in n_unsafe if r["status"] == "CAUGHT"),
        [r["name"] for r in n_unsafe if r["status"] != "CAUGHT"]))
    print("refactorings: %s" % [(r["name"], r["status"]) for r in results if r.get("kind") == "refactor"])
    return 0


if __name__ == "__main__":
    sys.exit(main())
