#!/usr/bin/env python3
"""Determinism proof for rtasim (DESIGN.md 2.7).

For every claimed property and for many VERIF_SEED values the check is run in separate
processes with --jobs 1, 7 and 16 (reduced budget); the order-independent digest of all event
logs, the number of evaluations, the distinct counts and every counter must be identical.

usage: determinism.py [--seeds N] [--scale PCT] [--props C01,C02,...]
"""
import json
import os
import subprocess
import sys
import tempfile

BIN = "/verif/sim/target/release/rtasim"
PROPS = ["C01", "C02", "C03", "C04", "C05", "C09", "C10", "C12", "C13", "C14", "C18"]


def run(prop, seed, jobs, scale, tmp):
    ev = os.path.join(tmp, "%s-%d-%d.json" % (prop, seed, jobs))
    p = subprocess.run(
        [BIN, "check", prop, "--seed", str(seed), "--jobs", str(jobs), "--scale", str(scale),
         "--evidence", ev, "--replay-dir", os.path.join(tmp, "rp"),
         "--known", "/verif/known_findings.txt"],
        stdout=subprocess.PIPE, stderr=subprocess.STDOUT, text=True)
    if p.returncode not in (0, 1):
        raise SystemExit("harness error for %s seed %d jobs %d:\n%s" % (prop, seed, jobs, p.stdout))
    with open(ev) as f:
        e = json.load(f)
    c = e["coverage"]
    return {
        "rc": p.returncode,
        "digest": c["digest"],
        "evaluations": c["evaluations"],
        "distinct_nontrivial": c["distinct_nontrivial"],
        "counters": c["counters"],
        "violations": e.get("violations"),
    }


def main():
    seeds, scale, props = 20, 2, PROPS
    args = sys.argv[1:]
    while args:
        a = args.pop(0)
        if a == "--seeds":
            seeds = int(args.pop(0))
        elif a == "--scale":
            scale = int(args.pop(0))
        elif a == "--props":
            props = args.pop(0).split(",")
    bad = 0
    total = 0
    with tempfile.TemporaryDirectory(prefix="rtasim-det-") as tmp:
        for prop in props:
            for seed in range(1, seeds + 1):
                ref = run(prop, seed, 1, scale, tmp)
                for jobs in (7, 16):
                    other = run(prop, seed, jobs, scale, tmp)
                    total += 1
                    if other != ref:
                        bad += 1
                        diff = [k for k in ref if ref[k] != other[k]]
                        print("NONDETERMINISM %s seed=%d jobs=1 vs %d differs in %s" % (prop, seed, jobs, diff))
            print("%s: %d seeds x (jobs 1, 7, 16) compared" % (prop, seeds))
    print("comparisons=%d mismatches=%d" % (total, bad))
    return 1 if bad else 0


if __name__ == "__main__":
    sys.exit(main())
