#!/usr/bin/env python3
"""'fixed:' entries suppress nothing: re-introducing a repaired defect must make the check fail
again.  For every fix commit of /repo the change is reverted in the working tree (never committed),
the listed checks are run and the fixture is replayed; everything is restored afterwards.
"""
import json
import os
import subprocess
import sys

REPO, VERIF = "/repo", "/verif"
FIXES = [
    # (commit, checks that must fail again, fixtures that must fail again)
    ("7650a0f", ["C01", "C02", "C03", "C04"], ["C01-prefix-zero-step.replay"]),
    ("ae76e27", ["C12"], ["C12-plateau-not-exact.replay", "C12-plateau-delta-min-dual.replay"]),
    ("4a17695", ["C12"], ["C12-prefix-of-prefix-panics.replay"]),
    ("849ad52", ["C14"], ["C14-from-trace-trailing-run.replay"]),
    ("2edbfb5", ["C12"], ["C12-prefix-of-never-panics.replay", "C12-prefix-first-step-late-panics.replay"]),
]


def sh(cmd, cwd=None):
    return subprocess.run(cmd, cwd=cwd, shell=True, stdout=subprocess.PIPE, stderr=subprocess.STDOUT, text=True)


def main():
    if sh("git status --porcelain", cwd=REPO).stdout.strip():
        raise SystemExit("/repo has uncommitted changes; refusing to run")
    results = []
    bad = 0
    try:
        for commit, checks, fixtures in FIXES:
            r = sh("git show %s -- src | git apply -R" % commit, cwd=REPO)
            if r.returncode != 0:
                print("cannot revert %s: %s" % (commit, r.stdout))
                bad += 1
                continue
            entry = {"reverted_fix": commit, "checks": {}, "fixtures": {}}
            try:
                for c in checks:
                    rc = sh("VERIF_SCALE=50 ./check %s quick" % c, cwd=VERIF).returncode
                    entry["checks"][c] = rc
                    if rc != 1:
                        bad += 1
                for f in fixtures:
                    rc = sh("./check replay fixtures/%s" % f, cwd=VERIF).returncode
                    entry["fixtures"][f] = rc
                    if rc != 1:
                        bad += 1
            finally:
                sh("git checkout -- .", cwd=REPO)
            print(json.dumps(entry))
            results.append(entry)
    finally:
        sh("git checkout -- .", cwd=REPO)
        sh("./check build", cwd=VERIF)
        sh("git checkout -- evidence", cwd=VERIF)
    with open(os.path.join(VERIF, "selftest", "refix_result.json"), "w") as f:
        json.dump(results, f, indent=1)
    print("mismatches=%d" % bad)
    return 1 if bad else 0


if __name__ == "__main__":
    sys.exit(main())
