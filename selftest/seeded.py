#!/usr/bin/env python3
"""Seeded breaking changes (written by independent sub-agents that saw only the property text).

  seeded.py verify <dir>        confirm in a fresh scratch worktree of /repo (under /tmp, removed
                                afterwards) that the change compiles, passes the existing tests, and
                                that its demonstration fails with it and passes without it
  seeded.py detect <dir> C01 [C18 ...]
                                apply the patch to /repo, run the given checks (quick tier), undo
                                the patch straight afterwards; records which checks caught it
  seeded.py all                 verify + detect for every directory under /verif/seeded using the
                                checks listed in its meta.json ("checks")

<dir> is a directory under /verif/seeded containing patch.diff, seed_demo.rs and meta.json.
Nothing is ever committed to /repo.
"""
import json
import os
import re
import shutil
import subprocess
import sys

REPO = "/repo"
VERIF = "/verif"


def sh(cmd, cwd=None, timeout=3600):
    return subprocess.run(cmd, cwd=cwd, shell=True, stdout=subprocess.PIPE, stderr=subprocess.STDOUT,
                          text=True, timeout=timeout)


def load_meta(d):
    p = os.path.join(d, "meta.json")
    return json.load(open(p)) if os.path.exists(p) else {}


def save_meta(d, meta):
    with open(os.path.join(d, "meta.json"), "w") as f:
        json.dump(meta, f, indent=1)
        f.write("\n")


def summarise_tests(out):
    res = re.findall(r"test result: (\w+)\. (\d+) passed; (\d+) failed", out)
    return res


def verify(d):
    name = os.path.basename(d.rstrip("/"))
    wt = "/tmp/seedverify-" + name
    sh("git worktree remove --force %s" % wt, cwd=REPO)
    shutil.rmtree(wt, ignore_errors=True)
    r = sh("git worktree add -q --detach %s HEAD" % wt, cwd=REPO)
    if r.returncode != 0:
        raise SystemExit(r.stdout)
    result = {}
    try:
        os.makedirs(os.path.join(wt, "tests"), exist_ok=True)
        shutil.copy(os.path.join(d, "seed_demo.rs"), os.path.join(wt, "tests", "seed_demo.rs"))
        # without the patch: everything passes
        r = sh("timeout 900 cargo test --offline --no-fail-fast 2>&1", cwd=wt)
        base = summarise_tests(r.stdout)
        result["without_patch"] = ["%s %s/%s" % (a, b, c) for a, b, c in base]
        ok_without = bool(base) and all(a == "ok" for a, b, c in base)
        # with the patch
        r = sh("git apply %s" % os.path.join(d, "patch.diff"), cwd=wt)
        if r.returncode != 0:
            result["error"] = "patch does not apply: " + r.stdout[:300]
            return result
        r = sh("timeout 900 cargo test --offline --no-fail-fast 2>&1", cwd=wt)
        withp = summarise_tests(r.stdout)
        result["with_patch"] = ["%s %s/%s" % (a, b, c) for a, b, c in withp]
        # the first group is the unit-test binary of the library (80 tests)
        lib_ok = bool(withp) and withp[0][0] == "ok" and int(withp[0][1]) >= 80
        demo_fails = any(a == "FAILED" for a, b, c in withp[1:])
        doctests_ok = withp[-1][0] == "ok" if withp else False
        result["existing_unit_tests_pass_with_patch"] = lib_ok
        result["doctests_pass_with_patch"] = doctests_ok
        result["demo_fails_with_patch"] = demo_fails
        result["everything_passes_without_patch"] = ok_without
        result["confirmed"] = bool(lib_ok and demo_fails and ok_without and doctests_ok)
    finally:
        sh("git worktree remove --force %s" % wt, cwd=REPO)
        shutil.rmtree(wt, ignore_errors=True)
        sh("git worktree prune", cwd=REPO)
    return result


def detect(d, checks, scale=None):
    if sh("git status --porcelain", cwd=REPO).stdout.strip():
        raise SystemExit("/repo has uncommitted changes; refusing to run")
    out = {}
    r = sh("git apply %s" % os.path.join(d, "patch.diff"), cwd=REPO)
    if r.returncode != 0:
        raise SystemExit("patch does not apply to /repo: " + r.stdout)
    try:
        for c in checks:
            env = ("VERIF_SCALE=%s " % scale) if scale else ""
            r = sh(env + "./check %s quick" % c, cwd=VERIF)
            viol = [l for l in r.stdout.splitlines() if l.startswith("violation:")]
            paths = [l.split("replay=", 1)[1].strip() for l in r.stdout.splitlines()
                     if l.startswith("VIOLATION ") and "replay=" in l]
            out[c] = {
                "exit": r.returncode,
                "verdict": {0: "MISSED (exit 0)", 1: "CAUGHT"}.get(r.returncode, "HARNESS-ERROR"),
                "first_violation": viol[0][:400] if viol else None,
            }
            if paths:
                # the minimised replay file must reproduce the violation in a fresh process ...
                rr = sh("./check replay %s" % paths[0], cwd=VERIF)
                out[c]["replay_file"] = paths[0]
                out[c]["replay_on_patched_tree_exit"] = rr.returncode
    finally:
        sh("git checkout -- .", cwd=REPO)
        st = sh("git status --porcelain", cwd=REPO).stdout.strip()
        if st:
            raise SystemExit("could not restore /repo: " + st)
    # ... and must not fail on the unchanged tree
    for c, v in out.items():
        if v.get("replay_file"):
            rr = sh("./check replay %s" % v["replay_file"], cwd=VERIF)
            v["replay_on_unchanged_tree_exit"] = rr.returncode
            v["replay_ok"] = (v["replay_on_patched_tree_exit"] == 1 and rr.returncode == 0)
            v["replay_file"] = os.path.basename(v["replay_file"])
    return out


def main():
    if len(sys.argv) < 2:
        print(__doc__)
        return 2
    cmd = sys.argv[1]
    if cmd == "verify":
        d = os.path.abspath(sys.argv[2])
        meta = load_meta(d)
        meta["verification"] = verify(d)
        save_meta(d, meta)
        print(json.dumps(meta["verification"], indent=1))
    elif cmd == "detect":
        d = os.path.abspath(sys.argv[2])
        meta = load_meta(d)
        res = detect(d, sys.argv[3:])
        meta.setdefault("detection", {}).update(res)
        save_meta(d, meta)
        print(json.dumps(res, indent=1))
        sh("./check build", cwd=VERIF)
        sh("git checkout -- evidence", cwd=VERIF)
    elif cmd == "all":
        root = os.path.join(VERIF, "seeded")
        for name in sorted(os.listdir(root)):
            d = os.path.join(root, name)
            if not os.path.isdir(d) or not os.path.exists(os.path.join(d, "patch.diff")):
                continue
            meta = load_meta(d)
            if "--skip-verify" not in sys.argv:
                meta["verification"] = verify(d)
            checks = meta.get("checks") or [meta.get("property")]
            meta["detection"] = detect(d, checks)
            save_meta(d, meta)
            print(name, meta.get("verification", {}).get("confirmed"),
                  {k: (v["verdict"], v.get("replay_ok")) for k, v in meta["detection"].items()})
            sys.stdout.flush()
        sh("./check build", cwd=VERIF)
        # evidence files were rewritten by runs against patched trees: put the committed ones back
        sh("git checkout -- evidence", cwd=VERIF)
    return 0


if __name__ == "__main__":
    sys.exit(main())
