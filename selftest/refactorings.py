#!/usr/bin/env python3
"""Quietness under behaviour-preserving changes.  Every diff under selftest/refactorings/ (written
by independent sub-agents that were asked for substantial, genuinely equivalent refactorings /
optimisations) is applied to /repo's working tree, the repository's tests and ALL eleven checks are
run, and the change is undone straight afterwards.  Every check must exit 0.

usage: refactorings.py [--scale PCT] [--only NAME]
"""
import json
import os
import subprocess
import sys

REPO, VERIF = "/repo", "/verif"
PROPS = ["C01", "C02", "C03", "C04", "C05", "C09", "C10", "C12", "C13", "C14", "C18"]


def sh(cmd, cwd=None):
    return subprocess.run(cmd, cwd=cwd, shell=True, stdout=subprocess.PIPE, stderr=subprocess.STDOUT, text=True)


def main():
    scale, only = "50", None
    a = sys.argv[1:]
    while a:
        x = a.pop(0)
        if x == "--scale":
            scale = a.pop(0)
        elif x == "--only":
            only = a.pop(0)
    if sh("git status --porcelain", cwd=REPO).stdout.strip():
        raise SystemExit("/repo has uncommitted changes; refusing to run")
    d = os.path.join(VERIF, "selftest", "refactorings")
    results = []
    try:
        for name in sorted(os.listdir(d)):
            if not name.endswith(".diff") or (only and only not in name):
                continue
            r = sh("git apply %s" % os.path.join(d, name), cwd=REPO)
            if r.returncode != 0:
                results.append({"name": name, "status": "does not apply"})
                print(results[-1])
                continue
            entry = {"name": name}
            try:
                t = sh("timeout 300 cargo test --offline 2>&1 | grep -E '^test result' | head -1", cwd=REPO)
                entry["repo_tests"] = t.stdout.strip()
                alarms, errors = [], []
                for p in PROPS:
                    rc = sh("VERIF_SCALE=%s ./check %s quick" % (scale, p), cwd=VERIF)
                    if rc.returncode == 1:
                        alarms.append(p + ": " + " | ".join(l for l in rc.stdout.splitlines() if l.startswith("violation:"))[:300])
                    elif rc.returncode != 0:
                        errors.append(p)
                entry["alarms"], entry["harness_errors"] = alarms, errors
                entry["status"] = "SILENT (ok)" if not alarms and not errors else "ALARM"
            finally:
                sh("git checkout -- . && git clean -fdq src", cwd=REPO)
            results.append(entry)
            print(json.dumps(entry))
            sys.stdout.flush()
    finally:
        sh("git checkout -- . && git clean -fdq src", cwd=REPO)
        sh("./check build", cwd=VERIF)
        sh("git checkout -- evidence", cwd=VERIF)
    if not only:
        with open(os.path.join(VERIF, "selftest", "refactorings_result.json"), "w") as f:
            json.dump(results, f, indent=1)
    return 0


if __name__ == "__main__":
    sys.exit(main())
