#!/usr/bin/env python3
"""Replays every committed fixture in a fresh process.

Fixtures of repaired defects (`fixed:` in known_findings.txt) must no longer fail (exit 0);
fixtures of recorded-but-not-repaired findings (`known:`) must still reproduce: the replay prints
the KNOWN-FINDING line and exits 0, like the check itself (with RTASIM_KNOWN=/dev/null: exit 1).
"""
import os
import subprocess
import sys

VERIF = "/verif"
STILL_FAILING = {"C13-loosened-beyond-range.replay", "C14-raises-beyond-range.replay"}


def main():
    bad = 0
    d = os.path.join(VERIF, "fixtures")
    for name in sorted(os.listdir(d)):
        if not name.endswith(".replay"):
            continue
        r = subprocess.run([os.path.join(VERIF, "check"), "replay", os.path.join(d, name)],
                           stdout=subprocess.PIPE, stderr=subprocess.STDOUT, text=True)
        want = 0
        ok = r.returncode == want
        if name in STILL_FAILING:
            ok = ok and "KNOWN-FINDING" in r.stdout
            env = dict(os.environ, RTASIM_KNOWN="/dev/null")
            r2 = subprocess.run([os.path.join(VERIF, "sim/target/release/rtasim"), "replay", os.path.join(d, name)],
                                stdout=subprocess.PIPE, stderr=subprocess.STDOUT, text=True, env=env)
            ok = ok and r2.returncode == 1
        print("%-45s exit %d (expected %d) %s" % (name, r.returncode, want, "ok" if ok else "MISMATCH"))
        if not ok:
            bad += 1
            print(r.stdout)
    return 1 if bad else 0


if __name__ == "__main__":
    sys.exit(main())
