#!/usr/bin/env python3
"""Copy a sub-agent's deliverables (<worktree>/seed/{patch.diff,seed_demo.rs,README.md}) into
/verif/seeded/<name>/ and write the initial meta.json.

usage: import_seed.py <worktree> <name> <property> <checks,comma> <breaks> <needs> <origin>
"""
import json
import os
import shutil
import sys


def main():
    wt, name, prop, checks, breaks, needs, origin = sys.argv[1:8]
    src = os.path.join(wt, "seed")
    d = os.path.join("/verif/seeded", name)
    os.makedirs(d, exist_ok=True)
    shutil.copy(os.path.join(src, "patch.diff"), os.path.join(d, "patch.diff"))
    shutil.copy(os.path.join(src, "seed_demo.rs"), os.path.join(d, "seed_demo.rs"))
    shutil.copy(os.path.join(src, "README.md"), os.path.join(d, "AGENT_README.md"))
    with open(os.path.join(d, "meta.json"), "w") as f:
        json.dump({"property": prop, "checks": checks.split(","), "breaks": breaks,
                   "needs_to_manifest": needs, "origin": origin}, f, indent=1)
        f.write("\n")
    print(name)


if __name__ == "__main__":
    main()
